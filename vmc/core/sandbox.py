"""Owns every source of nondeterminism and provides the execution seam.

Everything that runs Vyxal code from a check goes through this module:
  * the repository under test is taken from $VERIF_REPO (default /repo) and
    the import is asserted to come from there (vyxal is not installed in /venv);
  * stdin is /dev/null and builtins.input raises EOFError (get_input falls back
    to input() and would otherwise block for ever);
  * secrets.token_hex (lambda / loop names) is replaced by a counter so the
    generated Python is byte-reproducible;
  * random is seeded; PYTHONHASHSEED is fixed by run.py's re-exec;
  * a SIGALRM watchdog exists as a *backstop* only; a hit is reported as a cap.
"""
from __future__ import annotations

import builtins
import contextlib
import io
import os
import signal
import sys

REPO = os.environ.get("VERIF_REPO", "/repo")
_ready = False


class CaseTimeout(BaseException):
    """Raised by the SIGALRM backstop.  Derives from BaseException so that a broad `except Exception` inside the code under
    test cannot swallow it, and the timer repeats so that a swallowed/ignored first hit is followed by another."""


class StdinRead(EOFError):
    pass


def _no_input(*a, **k):
    raise StdinRead("stdin is not available to checked programs")


_counter = [0]


def _token_hex(n=16):
    _counter[0] += 1
    return "%032x" % _counter[0]


def reset_ids():
    _counter[0] = 0


def setup():
    """Import vyxal from the repo under test; idempotent."""
    global _ready
    if _ready:
        return
    if sys.path[0] != REPO:
        sys.path.insert(0, REPO)
    # fd 0 -> /dev/null
    try:
        fd = os.open(os.devnull, os.O_RDONLY)
        os.dup2(fd, 0)
        os.close(fd)
    except OSError:
        pass
    builtins.input = _no_input
    import warnings

    warnings.simplefilter("ignore")
    sys.setrecursionlimit(3000)
    import vyxal  # noqa
    import vyxal.transpile
    import vyxal.main
    import vyxal.elements
    import vyxal.helpers

    warnings.simplefilter("ignore")   # again: importing sympy installs its own "once" filter for its deprecation warnings
    root = os.path.realpath(REPO)
    assert os.path.realpath(vyxal.transpile.__file__).startswith(root + os.sep), (
        "vyxal imported from %s, not from %s" % (vyxal.transpile.__file__, root)
    )
    import secrets

    secrets.token_hex = _token_hex  # transpile.py does `import secrets; secrets.token_hex(16)`
    import random

    random.seed(0)
    _ready = True


def repo_rev():
    import subprocess

    try:
        rev = subprocess.run(
            ["git", "-C", REPO, "rev-parse", "--short", "HEAD"],
            capture_output=True, text=True, timeout=10,
        ).stdout.strip()
        dirty = subprocess.run(
            ["git", "-C", REPO, "status", "--porcelain", "--untracked-files=no"],
            capture_output=True, text=True, timeout=10,
        ).stdout.strip()
        return rev + ("+dirty" if dirty else "")
    except Exception:
        return "unknown"


# ----------------------------------------------------------------- watchdog
def _alarm(signum, frame):
    raise CaseTimeout()


@contextlib.contextmanager
def watchdog(seconds: float):
    """Backstop against pure-CPU loops.  A hit must be reported as a cap (or, where the guarded step is a finite computation
    that takes microseconds - lexing, parsing, lowering a short text - as non-termination after a generous retry).
    Nests: an enclosing watchdog's remaining time is restored on exit."""
    import time

    old = signal.signal(signal.SIGALRM, _alarm)
    t0 = time.monotonic()
    prev_delay, prev_interval = signal.setitimer(signal.ITIMER_REAL, seconds, 0.5)
    try:
        yield
    finally:
        if prev_delay > 0:
            signal.setitimer(signal.ITIMER_REAL, max(prev_delay - (time.monotonic() - t0), 0.001), prev_interval)
        else:
            signal.setitimer(signal.ITIMER_REAL, 0)
        signal.signal(signal.SIGALRM, old)


class NonTermination(Exception):
    """a finite step (lexing / parsing / lowering a short text) produced no result within a limit that is orders of magnitude
    above its normal cost, twice"""


def guarded(fn, *a, limits=(10.0, 60.0), **k):
    for lim in limits:
        try:
            with watchdog(lim):
                return fn(*a, **k)
        except CaseTimeout:
            continue
    raise NonTermination("no result within %g s" % limits[-1])


# ----------------------------------------------------------------- execution
_NS_BASE = None


def base_namespace():
    """What main.execute_vyxal execs in: globals of vyxal.main."""
    global _NS_BASE
    setup()
    if _NS_BASE is None:
        import vyxal.main

        _NS_BASE = dict(vars(vyxal.main))
    return dict(_NS_BASE)


def fresh_ctx(inputs=(), **attrs):
    setup()
    from vyxal.context import Context

    ctx = Context()
    ctx.inputs[0][0] = list(inputs)
    for k, v in attrs.items():
        setattr(ctx, k, v)
    return ctx


class Run:
    __slots__ = ("stack", "stdout", "ctx", "exc", "ns", "code")

    def __init__(self):
        self.stack = None
        self.stdout = ""
        self.ctx = None
        self.exc = None
        self.ns = None
        self.code = None


def transpile(program: str, dict_compress=True, var_digraphs=False) -> str:
    setup()
    import vyxal.transpile

    return guarded(vyxal.transpile.transpile, program, dict_compress, var_digraphs)


def tokenise(text, *a):
    setup()
    import vyxal.lexer

    return guarded(vyxal.lexer.tokenise, text, *a)


def parse(tokens):
    setup()
    import vyxal.parse

    return guarded(vyxal.parse.parse, tokens)


def exec_code(code, stack=None, ctx=None, inputs=(), ns=None, timeout=5.0) -> Run:
    """exec already transpiled (or compiled) code the way main.execute_vyxal does
    (same globals), on a fresh Context unless one is given."""
    r = Run()
    r.ctx = ctx if ctx is not None else fresh_ctx(inputs)
    r.stack = stack if stack is not None else []
    if ns is None:
        ns = base_namespace()
        r.ctx.stacks.append(r.stack)
    ns["stack"] = r.stack
    ns["ctx"] = r.ctx
    r.ns = ns
    r.code = code
    out = io.StringIO()
    try:
        with watchdog(timeout), contextlib.redirect_stdout(out):
            exec(code, ns)
    except CaseTimeout as e:
        r.exc = e
    except RecursionError as e:
        r.exc = e
    except SystemExit as e:
        r.exc = e
    except BaseException as e:  # noqa
        if isinstance(e, KeyboardInterrupt):
            raise
        r.exc = e
    r.stdout = out.getvalue()
    return r


def run_program(program: str, inputs=(), stack=None, ctx=None, dict_compress=True,
                timeout=5.0) -> Run:
    """tokenise+parse+transpile+exec `program`.  Transpile errors are returned in .exc."""
    try:
        code = transpile(program, dict_compress)
    except BaseException as e:  # noqa
        if isinstance(e, KeyboardInterrupt):
            raise
        r = Run()
        r.exc = e
        r.stack = stack if stack is not None else []
        r.ctx = ctx
        return r
    return exec_code(code, stack=stack, ctx=ctx, inputs=inputs, timeout=timeout)


def execute_vyxal(program: str, flags: str = "", inputs=(), online=False, out=None,
                  timeout=5.0):
    """The real entry point main.execute_vyxal(program, flags+'e', inputs).
    Returns (stdout, exc)."""
    setup()
    import vyxal.main

    buf = io.StringIO()
    exc = None
    try:
        with watchdog(timeout), contextlib.redirect_stdout(buf):
            if online:
                vyxal.main.execute_vyxal(program, flags + "e", inputs, out, True)
            else:
                vyxal.main.execute_vyxal(program, flags + "e", list(inputs))
    except BaseException as e:  # noqa
        if isinstance(e, KeyboardInterrupt):
            raise
        exc = e
    return buf.getvalue(), exc


# ----------------------------------------------------------------- canonical values
def canon(v, depth=0, limit=64):
    """Canonical, hashable, JSON-able form of a Vyxal value.
    ints/sympy rationals -> ('n', 'p/q'); str -> ('s', ..); list/LazyList -> ('l', (...));
    functions -> ('f',).  LazyLists are forced up to `limit` items."""
    import types
    from fractions import Fraction

    import sympy
    from vyxal.LazyList import LazyList

    if isinstance(v, bool):
        return ("b", str(v))
    if isinstance(v, int):
        return ("n", str(v))
    if isinstance(v, sympy.Basic):
        if v.is_Rational:
            return ("n", str(Fraction(int(v.p), int(v.q))))
        return ("x", str(v))
    if isinstance(v, float):
        return ("float", repr(v))
    if isinstance(v, str):
        return ("s", v)
    if isinstance(v, (types.FunctionType, types.BuiltinFunctionType)):
        return ("f",)
    if isinstance(v, LazyList):
        out = []
        i = 0
        while i < limit and v.has_ind(i):
            out.append(canon(v.generated[i], depth + 1, limit))
            i += 1
        if i >= limit and v.has_ind(limit):
            out.append(("...",))
        return ("l", tuple(out))
    if isinstance(v, (list, tuple)):
        if len(v) > limit:  # same truncation as for lazy lists, so that the two representations stay comparable
            return ("l", tuple(canon(x, depth + 1, limit) for x in v[:limit]) + (("...",),))
        return ("l", tuple(canon(x, depth + 1, limit) for x in v))
    if v is None:
        return ("none",)
    return ("?", type(v).__name__, repr(v)[:80])


def jsonable(c):
    if isinstance(c, tuple):
        return [jsonable(x) for x in c]
    if isinstance(c, list):
        return [jsonable(x) for x in c]
    if isinstance(c, dict):
        return {str(k): jsonable(v) for k, v in c.items()}
    if isinstance(c, (str, int, float, bool)) or c is None:
        return c
    return repr(c)


def show(v):
    """Short human-readable rendering of a canon() value."""
    if not isinstance(v, tuple) or not v:
        return repr(v)
    t = v[0]
    if t == "n":
        return v[1]
    if t == "s":
        return repr(v[1])
    if t == "l":
        return "[" + ", ".join(show(x) for x in v[1]) + "]"
    if t == "f":
        return "<fn>"
    return "<" + " ".join(str(x) for x in v) + ">"


# ----------------------------------------------------------------- single elements
_ELEM_CODE = {}


def element_code(key):
    """Compiled template of one element key, exactly what transpile() emits for it."""
    setup()
    c = _ELEM_CODE.get(key)
    if c is None:
        src = transpile(key)
        c = compile(src, "<element %s>" % key, "exec")
        _ELEM_CODE[key] = c
    return c


_APPLY_NS = None


def apply_element(key, args, ctx=None, inputs=(), timeout=10.0):
    """Run one element on a stack holding `args` (last = top).  Returns (stack, exc, ctx)."""
    global _APPLY_NS
    try:
        code = element_code(key)
    except BaseException as e:  # noqa  (a template that does not compile is C02's finding; here: out of domain)
        if isinstance(e, KeyboardInterrupt):
            raise
        return list(args), e, ctx
    if _APPLY_NS is None:
        _APPLY_NS = base_namespace()
    ns = _APPLY_NS
    if ctx is None:
        ctx = fresh_ctx(inputs)
    stack = list(args)
    ctx.stacks.append(stack)
    ns["stack"] = stack
    ns["ctx"] = ctx
    exc = None
    out = io.StringIO()
    try:
        with watchdog(timeout), contextlib.redirect_stdout(out):
            exec(code, ns)
    except BaseException as e:  # noqa
        if isinstance(e, KeyboardInterrupt):
            raise
        exc = e
    return stack, exc, ctx


def pyval(v, limit=4096, depth=0):
    """Plain-Python rendering of a Vyxal value: int / Fraction / str / nested list.
    LazyLists are forced (up to limit items)."""
    import types
    from fractions import Fraction

    import sympy
    from vyxal.LazyList import LazyList

    if depth > 12:
        return ("deep",)
    if isinstance(v, bool):
        return int(v)
    if isinstance(v, int):
        return v
    if isinstance(v, sympy.Basic):
        if v.is_Integer:
            return int(v)
        if v.is_Rational:
            return Fraction(int(v.p), int(v.q))
        return ("sympy", str(v))
    if isinstance(v, str):
        return v
    if isinstance(v, LazyList):
        out = []
        i = 0
        while i < limit and v.has_ind(i):
            out.append(pyval(v.generated[i], limit, depth + 1))
            i += 1
        return out
    if isinstance(v, (list, tuple)):
        return [pyval(x, limit, depth + 1) for x in v]
    if isinstance(v, types.FunctionType):
        return ("fn",)
    if isinstance(v, float):
        return ("float", v)
    if isinstance(v, (range,)):
        return [pyval(x) for x in v]
    return ("?", type(v).__name__, repr(v)[:60])
