"""Line-based reader for documents/knowledge/elements.yaml (PyYAML is not installed).
Only what the checks need: element/modifier key, arity, vectorise, overload signatures."""
from __future__ import annotations

import json
import os

from . import sandbox


def _scalar(s: str):
    s = s.strip()
    if len(s) >= 2 and s[0] == '"' and s[-1] == '"':
        try:
            return json.loads(s)
        except Exception:
            return s[1:-1]
    if len(s) >= 2 and s[0] == "'" and s[-1] == "'":
        return s[1:-1].replace("''", "'")
    return s


def read(path=None):
    path = path or os.path.join(sandbox.REPO, "documents", "knowledge", "elements.yaml")
    entries = []
    cur = None
    section = None
    with open(path, encoding="utf-8") as f:
        for raw in f:
            line = raw.rstrip("\n")
            if not line.strip() or line.lstrip().startswith("#"):
                continue
            if line.startswith("- "):
                k, _, v = line[2:].partition(":")
                cur = {"kind": k.strip(), "key": _scalar(v), "overloads": {}, "tests": []}
                entries.append(cur)
                section = None
                continue
            if cur is None:
                continue
            if line.startswith("  ") and not line.startswith("    "):
                k, _, v = line.strip().partition(":")
                k = k.strip()
                v = v.strip()
                if k in ("overloads", "tests"):
                    section = k
                else:
                    section = None
                    cur[k] = _scalar(v)
                continue
            if line.startswith("    ") and section == "overloads":
                k, _, v = line.strip().partition(":")
                cur["overloads"][k.strip()] = v.strip()
            elif line.startswith("    ") and section == "tests":
                cur["tests"].append(line.strip())
    return entries
