"""Reference structure semantics for C01: a tree-walking interpreter over MY program AST (vmc/core/progs.py).

It implements the documented structure semantics (Structures.md / Transpilation.md / Input.md / flag help) directly, with its
own operand stack, context-value stack, input scopes, register, variables, lambda/function objects, call protocol, modifiers and
higher-order elements.  Only first-order element VALUES (+ - * = < > ... and value formatting for printing) are shared with
the implementation (vyxal.elements functions) - C01 is about structures.  Reading decisions R1-R11: see DESIGN.md section 3 C01.

Anything the documents leave undefined raises OutOfDomain: such programs are counted and skipped, never judged."""
from __future__ import annotations


class OutOfDomain(Exception):
    pass


class Fuel(Exception):
    pass


class _Break(Exception):
    pass


class _Continue(Exception):
    pass


class _Return(Exception):
    pass


class Fn:
    """a lambda value"""

    def __init__(self, arity, body, kind="lambda"):
        self.arity = arity
        self.body = body
        self.kind = kind

    def __repr__(self):
        return "<reffn>"


class NamedFn:
    def __init__(self, name, params, body):
        self.name, self.params, self.body = name, params, body


FIRST_ORDER = {
    # key: (arity, python function name in vyxal.elements, or special)
    "+": (2, "add"), "-": (2, "subtract"), "*": (2, "multiply"), "=": (2, "equals"), "<": (2, "less_than"),
    ">": (2, "greater_than"), "›": (1, "increment"), "‹": (1, "decrement"), "d": (1, "__double"), "N": (1, "negate"),
    "L": (1, "length"), "h": (1, "head"), "J": (2, "merge"), '"': (2, "__pair"), "w": (1, "__wrap"), "∑": (1, "vy_sum"),
    "ɾ": (1, "inclusive_one_range"), "f": (1, "deep_flatten"), "t": (1, "tail"), "Ṙ": (1, "reverse"),
}
NILADS = {"₀": 10, "u": -1}


class Frame:
    def __init__(self, stack, kind, fn=None, local=None):
        self.stack = stack
        self.kind = kind      # "top" | "lambda" | "function" | "listitem"
        self.fn = fn
        self.local = local if local is not None else {}


class RefVM:
    def __init__(self, inputs=(), flags="", fuel=20000):
        import sympy

        self.sympy = sympy
        self.ctx = None  # a real Context only for value formatting / element calls (flags that affect elements)
        self.inputs = [[list(inputs), 0]]
        self.context = [0]
        self.register = 0
        self.globals = {}
        self.functions = {}
        self.out = []
        self.printed = False
        self.fuel = fuel
        self.flags = flags
        self.range_start = 0 if ("M" in flags) else 1
        self.range_end = 0 if ("m" in flags) else 1
        self.loop_depth = []  # open loops of the current call
        self.lazy = 0         # >0 while a body is evaluated that the implementation evaluates lazily (map / filter / vectorise / scan)
        from vmc.core import sandbox

        self.elctx = sandbox.fresh_ctx()
        self.elctx.range_start = self.range_start
        self.elctx.range_end = self.range_end

    # ------------------------------------------------------------ helpers
    def tick(self, n=1):
        self.fuel -= n
        if self.fuel < 0:
            raise Fuel()

    def num(self, k):
        return self.sympy.Integer(k)  # == sympy.nsimplify("<k>") for the small literals used here

    def effect(self, what):
        if self.lazy:
            raise OutOfDomain("side effect (%s) inside a lazily evaluated body: evaluation order is not part of the documented semantics" % what)

    def explicit_input(self):
        self.effect("explicit input")
        vals, k = self.inputs[0]
        if vals:
            v = vals[k % len(vals)]
            self.inputs[0][1] += 1
            return v
        return 0

    def implicit_input(self):
        sc = self.inputs[-1]
        if sc[0]:
            v = sc[0][sc[1] % len(sc[0])]
            sc[1] += 1
            return v
        return 0

    def pop(self, stack, n=1):
        out = []
        for _ in range(n):
            out.append(stack.pop() if stack else self.implicit_input())
        return out

    def pop1(self, stack):
        return self.pop(stack, 1)[0]

    def is_fn(self, v):
        return isinstance(v, (Fn, NamedFn))

    def has_fn(self, v, depth=0):
        if self.is_fn(v):
            return True
        if isinstance(v, list) and depth < 6:
            return any(self.has_fn(x, depth + 1) for x in v)
        return False

    def truthy(self, v):
        from vyxal.LazyList import LazyList

        if self.is_fn(v):
            raise OutOfDomain("function value as a condition (R3)")
        if isinstance(v, LazyList):
            return v.has_ind(0)
        if isinstance(v, list):
            return len(v) > 0
        if isinstance(v, str):
            return len(v) > 0
        return bool(v != 0)

    def listify(self, v):
        """finite lazy lists -> lists (the reference does not care about laziness)"""
        from vyxal.LazyList import LazyList

        if isinstance(v, LazyList):
            if v.infinite:
                raise OutOfDomain("infinite list")
            return [self.listify(x) for x in v.listify()]
        if isinstance(v, list):
            return [self.listify(x) for x in v]
        return v

    def iter_of(self, v, number_as_range=True):
        """what a loop / map iterates over"""
        if self.is_fn(v):
            raise OutOfDomain("function value as an iterable (R3)")
        v = self.listify(v)
        if isinstance(v, (list, str)):
            return list(v)
        if number_as_range:
            return [self.num(i) if False else i for i in range(self.range_start, int(v) + self.range_end)]
        raise OutOfDomain("number where a list is needed")

    def element(self, key, args):
        """first-order element value from the implementation's element function"""
        import vyxal.elements as E

        if any(self.has_fn(a) for a in args):
            raise OutOfDomain("function value passed to a first-order element")
        name = FIRST_ORDER[key][1]
        try:
            if name == "__double":
                r = E.multiply(args[0], 2, self.elctx)
            elif name == "__pair":
                r = [args[0], args[1]]
            elif name == "__wrap":
                r = [args[0]]
            else:
                r = getattr(E, name)(*args, ctx=self.elctx)
            return self.listify(r)
        except OutOfDomain:
            raise
        except RecursionError:
            raise
        except Exception as e:  # noqa
            raise OutOfDomain("element %s raises %s" % (key, type(e).__name__))

    def fmt(self, v):
        import vyxal.elements as E

        if self.has_fn(v):
            raise OutOfDomain("printing a function value")
        v = self.listify(v)
        try:
            if isinstance(v, self.sympy.Basic):
                v = self.sympy.nsimplify(v, rational=True)
            return E.vy_str(v, ctx=self.elctx)
        except Exception as e:  # noqa
            raise OutOfDomain("formatting raises " + type(e).__name__)

    def emit(self, v, end="\n", stack=None, frame=None):
        self.effect("print")
        self.printed = True
        if isinstance(v, Fn) and frame is not None and frame.kind == "listitem":
            # (R12) is a reading of the implementation, not of the documents; "the current stack" of a list item (a private copy
            # that the interpreter does not register anywhere) is not something the documents define: out of the domain
            raise OutOfDomain("printing a function value inside a list item")
        if isinstance(v, Fn) and stack is not None:
            # (R12) printing a function value calls it on the current stack, as the call element would, and prints the result
            # with a newline (the `end` of the printing element is not passed on)
            self.call_from_stack(v, stack)
            res = stack.pop()
            self.emit(res, "\n", stack)
            return
        self.out.append(self.fmt(v) + end)

    # ------------------------------------------------------------ calls
    def call_lambda(self, fn, args):
        """args first-to-last; the last is on top of the lambda's stack (R4b). Returns the lambda's result."""
        self.tick(5)
        stack = list(args)
        return self._run_lambda(fn, stack)

    def _run_lambda(self, fn, stack):
        ctxv = list(stack) if len(stack) != 1 else stack[0]
        self.context.append(ctxv)
        self.inputs.append([list(stack)[::-1], 0])
        frame = Frame(stack, "lambda", fn)
        saved = self.loop_depth
        self.loop_depth = ["operand"] if fn.kind == "operand" else []
        try:
            try:
                self.run(fn.body, frame)
            except _Return:
                pass
            res = self.pop1(stack)
        finally:
            self.loop_depth = saved
            self.context.pop()
            self.inputs.pop()
        return res

    def call_from_stack(self, fn, stack):
        """the call element: pops `arity` values from the caller (R4a: the lambda's stack holds them in popped order)"""
        self.tick(5)
        if isinstance(fn, NamedFn):
            return self.call_named(fn, stack)
        args = self.pop(stack, fn.arity)
        res = self._run_lambda(fn, list(args))
        stack.append(res)

    def call_named(self, fn, stack):
        self.tick(5)
        params = []
        local = {}
        for p in fn.params:
            if isinstance(p, int):
                params += self.pop(stack, p)
            else:
                local[p] = self.pop1(stack)
        fstack = list(params)
        self.context.append(list(params))
        self.inputs.append([list(params)[::-1], 0])
        frame = Frame(fstack, "function", fn, local)
        saved = self.loop_depth
        self.loop_depth = []
        try:
            try:
                self.run(fn.body, frame)
            except _Return:
                pass
        finally:
            self.loop_depth = saved
            self.context.pop()
            self.inputs.pop()
        stack += fstack

    def apply(self, f, *args):
        """apply a function VALUE (lambda) to explicit arguments"""
        if isinstance(f, Fn):
            return self.call_lambda(f, list(args))
        raise OutOfDomain("applying a named function as a value")

    def lazily(self, thunk):
        self.lazy += 1
        try:
            return thunk()
        finally:
            self.lazy -= 1

    # ------------------------------------------------------------ interpreter
    def run(self, seq, frame):
        for node in seq:
            self.step(node, frame)

    def wrap_operand(self, node):
        """operand of a modifier -> function value (R11)"""
        t = node[0]
        if t == "lam":
            return Fn(node[1] if node[1] is not None else 1, node[2])
        if t == "mod" and node[1] in ("⁽", "‡", "≬"):
            # "if it already is a lambda, it stays as a lambda" (Transpilation.md): the n-element lambdas are lambdas
            return Fn(1, tuple(node[2]), kind="operand")
        if t in ("num", "str", "get"):
            return Fn(0, (node,), kind="operand")
        if t == "el":
            k = node[1]
            if k in NILADS:
                return Fn(0, (node,), kind="operand")
            if k in FIRST_ORDER:
                return Fn(FIRST_ORDER[k][0], (node,), kind="operand")
            ar = {":": 1, "_": 1, "$": 2, "!": 0, "n": 0, "?": 0, ",": 1, "…": 1, "₴": 1, "£": 1, "¥": 0, "W": 0, "†": 1,
                  "M": 2, "F": 2, "ṡ": 2, "R": 2}.get(k)
            if ar is None:
                raise OutOfDomain("operand element outside the core")
            return Fn(ar, (node,), kind="operand")
        return Fn(1, (node,), kind="operand")

    def step(self, node, frame):
        self.tick()
        st = frame.stack
        t = node[0]
        if t == "num":
            st.append(self.num(node[1]))
        elif t == "str":
            st.append(node[1])
        elif t == "el":
            self.do_element(node[1], frame)
        elif t == "get":
            name = node[1]
            if name in frame.local:
                st.append(frame.local[name])
            elif name in self.globals:
                self.effect("global variable read")
                st.append(self.globals[name])
            else:
                raise OutOfDomain("read of an unset variable")
        elif t == "set":
            if frame.kind != "top":
                raise OutOfDomain("variable assignment inside a lambda/function/list item (Python scoping is not documented semantics)")
            self.globals[node[1]] = self.pop1(st)
        elif t == "if":
            self.do_if(node[1], frame)
        elif t == "for":
            self.do_for(node[1], node[2], frame)
        elif t == "while":
            self.do_while(node[1], node[2], frame)
        elif t == "lam":
            st.append(Fn(node[1] if node[1] is not None else 1, node[2]))
        elif t in ("map", "filter", "sort"):
            st.append(Fn(1, node[1]))
            self.do_element({"map": "M", "filter": "F", "sort": "ṡ"}[t], frame)
        elif t == "fndef":
            if frame.kind != "top":
                raise OutOfDomain("nested function definition")
            self.functions[node[1]] = NamedFn(node[1], list(node[2]), node[3])
        elif t == "fncall":
            f = self.functions.get(node[1])
            if f is None:
                raise OutOfDomain("call of an undefined function")
            self.call_named(f, st)
        elif t == "list":
            items = []
            for it in node[1]:
                local = list(st)
                fr = Frame(local, "listitem", None, dict(frame.local))
                fr.outer = frame
                self.run_listitem(it, fr, frame)
                if local:
                    items.append(self.pop1(local))
            st.append(items)
        elif t == "mod":
            self.do_modifier(node[1], node[2], frame)
        elif t == "break":
            self.do_break(frame)
        elif t == "recurse":
            self.do_recurse(frame)
        else:
            raise ValueError(node)

    def run_listitem(self, seq, fr, outer):
        # a list item is its own scope for break/continue (no enclosing loop can be left from inside it)
        saved = self.loop_depth
        self.loop_depth = []
        try:
            self.run(seq, fr)
        finally:
            self.loop_depth = saved

    # ------------------------------------------------------------ structures
    def do_if(self, branches, frame):
        st = frame.stack
        cond = self.pop1(st)
        if self.truthy(cond):
            self.run(branches[0], frame)
            return
        i = 1
        n = len(branches)
        while i < n:
            if i == n - 1:
                self.run(branches[i], frame)
                return
            self.run(branches[i], frame)
            c = self.pop1(st)
            if self.truthy(c):
                self.run(branches[i + 1], frame)
                return
            i += 2

    def do_for(self, var, body, frame):
        st = frame.stack
        it = self.iter_of(self.pop1(st))
        if var is not None and frame.kind != "top":
            raise OutOfDomain("named loop variable inside a lambda/function (Python scoping)")
        self.loop_depth.append("for")
        try:
            for item in it:
                self.tick()
                if isinstance(item, int) and not isinstance(item, bool):
                    pass
                if var is not None:
                    self.globals[var] = item
                self.context.append(item)
                try:
                    self.run(body, frame)
                except _Continue:
                    pass
                except _Break:
                    break
                finally:
                    self.context.pop()
        finally:
            self.loop_depth.pop()

    def do_while(self, cond, body, frame):
        st = frame.stack
        self.loop_depth.append("while")
        try:
            while True:
                self.tick()
                if cond is None:
                    c = self.num(1)
                else:
                    self.loop_depth.append("cond")  # break/continue in the condition are no-ops
                    try:
                        self.run(cond, frame)
                    finally:
                        self.loop_depth.pop()
                    c = self.pop1(st)
                if not self.truthy(c):
                    break
                self.context.append(c)
                try:
                    self.run(body, frame)
                except _Continue:
                    pass
                except _Break:
                    break
                finally:
                    self.context.pop()
        finally:
            self.loop_depth.pop()

    def do_break(self, frame):
        if self.loop_depth:
            if self.loop_depth[-1] in ("cond", "operand"):
                return  # no-op
            raise _Break()
        if frame.kind in ("lambda", "function"):
            raise _Return()
        return  # top level / list item: no-op

    def do_recurse(self, frame):
        if self.loop_depth:
            if self.loop_depth[-1] == "cond":
                raise OutOfDomain("recurse in a while condition")
            if self.loop_depth[-1] == "operand":
                raise OutOfDomain("recurse in a modifier operand")
            raise _Continue()
        if frame.kind == "lambda":
            # re-enter the lambda on its own stack (R9)
            self.tick(20)
            self.call_from_stack(frame.fn, frame.stack)
            return
        raise OutOfDomain("recurse outside a loop or lambda")

    # ------------------------------------------------------------ elements
    def do_element(self, k, frame):
        st = frame.stack
        if k in NILADS:
            st.append(self.num(NILADS[k]))
        elif k in FIRST_ORDER:
            ar = FIRST_ORDER[k][0]
            popped = self.pop(st, ar)
            args = popped[::-1]  # lhs is the deepest
            st.append(self.element(k, args))
        elif k == ":":
            v = self.pop1(st)
            st += [v, v]
        elif k == "_":
            self.pop1(st)
        elif k == "$":
            rhs, lhs = self.pop(st, 2)
            st += [rhs, lhs]
        elif k == "!":
            st.append(len(st))
        elif k == "n":
            st.append(self.context[-1])
        elif k == "?":
            st.append(self.explicit_input())
        elif k == ",":
            self.emit(self.pop1(st), stack=st, frame=frame)
        elif k == "…":
            v = self.pop1(st)
            self.emit(v, stack=st, frame=frame)
            st.append(v)
        elif k == "₴":
            self.emit(self.pop1(st), end="", stack=st, frame=frame)
        elif k == "£":
            self.effect("register write")
            self.register = self.pop1(st)
        elif k == "¥":
            self.effect("register read")
            st.append(self.register)
        elif k == "W":
            whole = list(st)
            del st[:]
            st.append(whole)
        elif k == "†":
            top = self.pop1(st)
            if not self.is_fn(top):
                raise OutOfDomain("call element on a non-function")
            self.call_from_stack(top, st)
        elif k in ("M", "F", "ṡ"):
            rhs, lhs = self.pop(st, 2)
            if self.is_fn(lhs) == self.is_fn(rhs):
                raise OutOfDomain("%s needs exactly one function" % k)
            f, v = (lhs, rhs) if self.is_fn(lhs) else (rhs, lhs)
            if k == "ṡ":
                items = self.iter_of(v, number_as_range=False) if not isinstance(v, (int, self.sympy.Basic)) else None
                if items is None:
                    raise OutOfDomain("sort of a number's digits")
            else:
                items = self.iter_of(v)
            if isinstance(v, str) and k != "M":
                raise OutOfDomain("filter/sort of a string")
            if k == "M":
                st.append(self.lazily(lambda: [self.apply(f, x) for x in items]))
            elif k == "F":
                st.append(self.lazily(lambda: [x for x in items if self.truthy(self.apply(f, x))]))
            else:
                keys = [(self.sortkey(self.apply(f, x)), i) for i, x in enumerate(items)]
                st.append([items[i] for _, i in sorted(keys)])
        elif k == "R":
            if len(st) > 1 and (self.is_fn(st[-1]) or self.is_fn(st[-2])):
                rhs, lhs = self.pop(st, 2)
                f, v = (lhs, rhs) if self.is_fn(lhs) else (rhs, lhs)
                if self.is_fn(v):
                    raise OutOfDomain("reduce of a function")
                st.append(self.fold(f, v))
            else:
                raise OutOfDomain("R without a function (vectorised reverse is not a structure)")
        else:
            raise OutOfDomain("element outside the core: " + k)

    def sortkey(self, v):
        v = self.listify(v)
        if self.has_fn(v) or isinstance(v, (list, str)):
            raise OutOfDomain("non-numeric sort key")
        try:
            return (0, float(v))
        except Exception:
            raise OutOfDomain("sort key")

    def fold(self, f, v):
        if isinstance(v, (int, self.sympy.Basic)):
            raise OutOfDomain("fold over the digits of a number")
        items = self.iter_of(v, number_as_range=False)
        if not items:
            return 0
        acc = items[0]
        for x in items[1:]:
            acc = self.apply(f, acc, x)
        return acc

    # ------------------------------------------------------------ modifiers
    def do_modifier(self, m, operands, frame):
        st = frame.stack
        # break/continue inside a modifier operand are no-ops; recurse is out of domain
        if m in ("⁽", "‡", "≬"):
            st.append(Fn(1, tuple(operands), kind="operand"))
            return
        fs = [self.wrap_operand(o) for o in operands]
        fA = fs[0]
        if m == "v":
            if fA.arity == 0:
                raise OutOfDomain("vectorising a nilad")
            popped = self.pop(st, fA.arity)
            args = popped[::-1]
            if any(self.is_fn(a) for a in args):
                raise OutOfDomain("vectorise over a function value")
            if fA.arity == 1:
                st.append(self.lazily(lambda: [self.apply(fA, x) for x in self.iter_of(args[0])]))
            elif fA.arity == 2:
                lhs, rhs = args
                lhs, rhs = self.listify(lhs), self.listify(rhs)
                if isinstance(lhs, list):
                    st.append(self.lazily(lambda: [self.apply(fA, x, rhs) for x in lhs]))
                elif isinstance(rhs, list):
                    st.append(self.lazily(lambda: [self.apply(fA, lhs, y) for y in rhs]))
                else:
                    raise OutOfDomain("vectorise a dyad over two scalars")
            else:
                lhs = self.listify(args[0])
                if not isinstance(lhs, list):
                    raise OutOfDomain("vectorise a triad over a scalar")
                st.append(self.lazily(lambda: [self.apply(fA, x, *args[1:]) for x in lhs]))
        elif m == "&":
            st.append(self.register)
            popped = self.pop(st, fA.arity)
            self.register = self.apply(fA, *popped[::-1])
        elif m == "~":
            if fA.arity >= 2:
                popped = self.pop(st, fA.arity)
                args = popped[::-1]
                st += args
                st.append(self.apply(fA, *args))
            elif fA.arity == 1:
                v = self.pop1(st)
                if self.is_fn(v) or isinstance(v, str):
                    raise OutOfDomain("filter of a function/string")
                st.append(self.lazily(lambda: [x for x in self.iter_of(v) if self.truthy(self.apply(fA, x))]))
            else:
                raise OutOfDomain("~ with a nilad")
        elif m == "ß":
            c = self.pop1(st)
            if self.truthy(c):
                self.call_from_stack(fA, st)
        elif m == "ƒ":
            v = self.pop1(st)
            if self.is_fn(v):
                raise OutOfDomain("reduce of a function")
            st.append(self.fold(fA, v))
        elif m == "ɖ":
            v = self.pop1(st)
            if self.is_fn(v) or isinstance(v, (int, self.sympy.Basic)):
                raise OutOfDomain("scan of a function/number")
            items = self.iter_of(v, number_as_range=False)
            def scan():
                out = []
                acc = None
                for i, x in enumerate(items):
                    acc = x if i == 0 else self.apply(fA, acc, x)
                    out.append(acc)
                return out

            st.append(self.lazily(scan))
        elif m in ("₌", "₍"):
            fB = fs[1]
            copy = list(st)
            argsA = self.pop(copy, fA.arity)[::-1]
            argsB = self.pop(st, fB.arity)[::-1]
            if fA.arity == 0 or fB.arity == 0:
                raise OutOfDomain("parallel apply with a nilad")
            rA = self.apply(fA, *argsA)
            rB = self.apply(fB, *argsB)
            if m == "₌":
                st += [rA, rB]
            else:
                st.append([rA, rB])
        else:
            raise OutOfDomain("unknown modifier " + m)

    # ------------------------------------------------------------ whole programs
    def run_program(self, prog, stack=None):
        frame = Frame(stack if stack is not None else [], "top")
        self.loop_depth = []
        self.run(prog, frame)
        return frame.stack

    def finish(self, stack):
        """implicit output with the output flags (R10); returns the full stdout text"""
        import vyxal.elements as E

        flags = self.flags
        originally_empty = not stack
        output = self.pop1(stack)
        for fl in flags:
            if fl == "j":
                output = self.element_generic(E.join, output, "\n")
            elif fl == "s":
                output = self.element_generic(E.vy_sum, output)
            elif fl == "W":
                if originally_empty:
                    output = []
                else:
                    stack.append(output)
                    if self.has_fn(stack):
                        raise OutOfDomain("printing a function value")
                    output = E.vy_str(self.listify(list(stack)), self.elctx)
        if not (self.printed or "O" in flags) or "o" in flags:
            self.emit(output, stack=stack)
        return "".join(self.out)

    def element_generic(self, fn, *args):
        if any(self.has_fn(a) for a in args):
            raise OutOfDomain("function value in the implicit output")
        try:
            return self.listify(fn(*[self.listify(a) for a in args], ctx=self.elctx))
        except Exception as e:  # noqa
            raise OutOfDomain("output flag raises " + type(e).__name__)
