"""Program-space helpers shared by C02 / C18 / C12 / C01: position contexts, an independent
well-formedness recogniser for raw token strings, and a token-boundary-aware joiner."""
from __future__ import annotations

# ---------------------------------------------------------------- position contexts (hole = {})
CONTEXTS = [
    ("top", "{}"),
    ("if1", "[{}]"), ("if-else", "[+|{}]"), ("if-elif-cond", "[+|{}|+]"), ("if-elif-body", "[+|+|{}]"),
    ("if-4th", "[+|+|+|{}]"), ("if-5th", "[+|+|+|+|{}]"),
    ("for", "({})"), ("for-named", "(i|{})"),
    ("while-cond", "{{{}|+}}"), ("while-body", "{{+|{}}}"), ("while-1", "{{{}}}"),
    ("fn", "@f|{};"), ("fn-params", "@f:a:2|{};"),
    ("lambda", "λ{};"), ("lambda-arity", "λ2|{};"), ("map", "ƛ{};"), ("filter", "'{};"), ("sort", "µ{};"),
    ("list-1", "⟨{}|+⟩"), ("list-2", "⟨+|{}⟩"),
    ("v", "v{}"), ("&", "&{}"), ("~", "~{}"), ("ß", "ß{}"), ("ƒ", "ƒ{}"), ("ɖ", "ɖ{}"), ("⁽", "⁽{}"),
    ("₌A", "₌{}+"), ("₌B", "₌+{}"), ("₍A", "₍{}+"), ("₍B", "₍+{}"), ("‡A", "‡{}+"), ("‡B", "‡+{}"),
    ("≬A", "≬{}++"), ("≬B", "≬+{}+"), ("≬C", "≬++{}"),
    ("after-R", "R{}"), ("after-†", "†{}"), ("after-ġ", "ġ{}"), ("after-Ǔ", "Ǔ{}"), ("after-Þf", "Þf{}"),
    ("after-□", "□{}"), ("after-ß", "ß+{}"), ("before-R", "{}R"), ("after-list", "⟨+⟩{}"), ("after-lambda", "λ+;{}"),
    # a modifier parses the whole rest of its scope: what FOLLOWS a modified element in the same scope is a position of its own
    ("after-v", "v+{}"), ("after-⁽", "⁽+{}"), ("after-‡", "‡+-{}"), ("after-≬", "≬+-*{}"), ("after-₌", "₌+-{}"), ("after-&", "&+{}"),
]

MODIFIER_ARITY = {"v": 1, "⁽": 1, "&": 1, "~": 1, "ß": 1, "ƒ": 1, "ɖ": 1, "₌": 2, "‡": 2, "₍": 2, "≬": 3}


def key_text(key):
    """An element key as program text, followed by a (no-op) space so that it cannot glue to what follows;
    a modifier key gets its operands."""
    if key in MODIFIER_ARITY:
        return key + "+" * MODIFIER_ARITY[key] + " "
    return key + " "


def fill(ctx_t, inner):
    return ctx_t.format(inner)


# ---------------------------------------------------------------- recogniser for raw strings over a small alphabet
OPEN = {"[": "]", "(": ")", "{": "}", "@": ";", "λ": ";", "ƛ": ";", "'": ";", "µ": ";", "⟨": "⟩"}
CLOSERS = set(OPEN.values())
ELEMENTS = set("f1Xx+")


class Reject(Exception):
    pass


def well_formed(s: str) -> bool:
    """True iff s (over OPEN, closers, |, elements f 1 X x +, modifiers) is a well-formed program:
    valid tokens; structures balanced or truncated at the END only; every modifier followed by >= arity
    elements in its branch; lambda arity branch is a decimal integer; for-loop variable / function name are
    names; call form has no parameters; while has <= 2 branches; map/filter/sort lambdas have one branch."""
    try:
        pos = _items(s, 0, None)
        return pos == len(s)
    except Reject:
        return False


def _items(s, i, closer):
    """parse items until `closer`, '|' (returned to caller) or end; returns new index (at the stopper)"""
    n = len(s)
    while i < n:
        c = s[i]
        if c == "|" or c in CLOSERS:
            return i
        i = _item(s, i)
    return i


def _item(s, i):
    n = len(s)
    c = s[i]
    if c in MODIFIER_ARITY:
        i += 1
        for _ in range(MODIFIER_ARITY[c]):
            if i >= n or s[i] == "|" or s[i] in CLOSERS:
                raise Reject("modifier without enough operands")
            i = _item(s, i)
        return i
    if c == "1":
        while i < n and s[i] == "1":
            i += 1  # adjacent digits are ONE number token
        return i
    if c in ELEMENTS:
        return i + 1
    if c in OPEN:
        return _structure(s, i)
    raise Reject("unknown symbol %r" % c)


def _branches(s, i, closer):
    """after the opener: list of (start, end) of branches; returns (branches, next index, closed?)"""
    n = len(s)
    spans = []
    start = i
    while True:
        i = _items(s, i, closer)
        if i >= n:
            spans.append((start, i))
            return spans, i, False
        if s[i] == "|":
            spans.append((start, i))
            i += 1
            start = i
            continue
        if s[i] == closer:
            spans.append((start, i))
            return spans, i + 1, True
        raise Reject("mismatched closer")


def _is_name(t):
    return bool(t) and all(ch.isalpha() or ch == "_" for ch in t) and t.isascii()


def _structure(s, i):
    op = s[i]
    closer = OPEN[op]
    spans, j, closed = _branches(s, i + 1, closer)
    texts = [s[a:b] for a, b in spans]
    if op == "[":
        return j
    if op == "⟨":
        return j
    if op == "(":
        if len(texts) > 2:
            raise Reject("for loop with more than two branches")
        if len(texts) == 2 and not _is_name(texts[0]):
            raise Reject("loop variable is not a name")
        return j
    if op == "{":
        if len(texts) > 2:
            raise Reject("while with more than two branches")
        return j
    if op == "λ":
        if len(texts) > 2:
            raise Reject("lambda with more than two branches")
        if len(texts) == 2 and not (texts[0].isdigit() and texts[0].isascii()):
            raise Reject("lambda arity is not an integer")
        return j
    if op in "ƛ'µ":
        if len(texts) != 1:
            raise Reject("map/filter/sort lambda with an arity branch")
        return j
    if op == "@":
        if len(texts) > 2:
            raise Reject("function with more than two branches")
        head = texts[0]
        parts = head.split(":")
        if not _is_name(parts[0]):
            raise Reject("function name is not a name")
        for p in parts[1:]:
            if not (_is_name(p) or (p.isdigit() and p.isascii())):
                raise Reject("bad parameter")
        if len(texts) == 1 and len(parts) > 1:
            raise Reject("call form with parameters")
        return j
    raise Reject(op)


# ---------------------------------------------------------------- my own program AST + renderer (never uses vyxal.parse)
# node := ("num", k) | ("str", s) | ("el", key) | ("get", name) | ("set", name) | ("if", [seq, ...]) | ("for", var|None, seq)
#       | ("while", cond_seq|None, seq) | ("lam", arity|None, seq) | ("map", seq) | ("filter", seq) | ("sort", seq)
#       | ("fndef", name, [params], seq) | ("fncall", name) | ("list", [seq, ...]) | ("mod", m, [node, ...]) | ("break",) | ("recurse",)
# seq := tuple of nodes
def render(node):
    t = node[0]
    if t == "num":
        return "%d " % node[1] if node[1] >= 0 else "%d N" % -node[1]
    if t == "str":
        return "`" + node[1] + "`"
    if t == "el":
        return node[1]
    if t == "get":
        return "←" + node[1] + " "
    if t == "set":
        return "→" + node[1] + " "
    if t == "if":
        return "[" + "|".join(render_seq(b) for b in node[1]) + "]"
    if t == "for":
        return "(" + ((node[1] + "|") if node[1] else "") + render_seq(node[2]) + ")"
    if t == "while":
        return "{" + ((render_seq(node[1]) + "|") if node[1] is not None else "") + render_seq(node[2]) + "}"
    if t == "lam":
        return "λ" + (("%d|" % node[1]) if node[1] is not None else "") + render_seq(node[2]) + ";"
    if t in ("map", "filter", "sort"):
        return {"map": "ƛ", "filter": "'", "sort": "µ"}[t] + render_seq(node[1]) + ";"
    if t == "fndef":
        return "@" + node[1] + "".join(":" + str(p) for p in node[2]) + "|" + render_seq(node[3]) + ";"
    if t == "fncall":
        return "@" + node[1] + ";"
    if t == "list":
        return "⟨" + "|".join(render_seq(b) for b in node[1]) + "⟩"
    if t == "mod":
        return node[1] + "".join(render(o) for o in node[2])
    if t == "break":
        return "X"
    if t == "recurse":
        return "x"
    raise ValueError(node)


def render_seq(seq):
    return "".join(render(n) for n in seq)


def size(node):
    t = node[0]
    if t in ("num", "str", "el", "get", "set", "fncall", "break", "recurse"):
        return 1
    if t == "if" or t == "list":
        return 1 + sum(size_seq(b) for b in node[1])
    if t == "for":
        return 1 + size_seq(node[2])
    if t == "while":
        return 1 + (size_seq(node[1]) if node[1] is not None else 0) + size_seq(node[2])
    if t == "lam":
        return 1 + size_seq(node[2])
    if t in ("map", "filter", "sort"):
        return 1 + size_seq(node[1])
    if t == "fndef":
        return 1 + size_seq(node[3])
    if t == "mod":
        return 1 + sum(size(o) for o in node[2])
    raise ValueError(node)


def size_seq(seq):
    return sum(size(n) for n in seq)


def shape_of_real_parse(text):
    """Cross-check of the renderer: the real parser's tree as a nested tuple of class names (used as a harness self-check)."""
    from vyxal.lexer import tokenise
    from vyxal.parse import parse
    from vyxal.structure import Structure

    def sh(x):
        if isinstance(x, Structure):
            return (type(x).__name__,) + tuple(sh(b) for b in x.branches if isinstance(b, (list, tuple, Structure)))
        if isinstance(x, (list, tuple)):
            return tuple(sh(b) for b in x if isinstance(b, (list, tuple, Structure)))
        return None

    return sh(parse(tokenise(text)))
