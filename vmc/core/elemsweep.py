"""Shared by C09 and C10: every key of the element table on every argument tuple over a small
value domain, on top of a sentinel prefix, with kept references to the arguments."""
from __future__ import annotations

import itertools
from fractions import Fraction

from . import explore, sandbox

# value specs (python data) -> fresh Vyxal values per case
V_FULL = [3, 0, -2, Fraction(1, 2), "ab", "", [1, 2, 3], [], [[1, 2], [3]], ["a", "b"], ("lazy", [1, 2, 3])]
V_QUICK = [3, 0, Fraction(1, 2), "ab", [1, 2, 3], [[1, 2], [3]], ("lazy", [1, 2, 3])]
V_TRIAD = [3, 0, "ab", [1, 2, 3], [[1, 2], [3]], ("lazy", [1, 2, 3]), [[], 1]]
V_MOD = [3, "ab", [1, 2, 3]]

WHOLE_STACK = {"W", "^", "!", "„", "‟", "Ȯ", "†", "¨ẇ"}   # documented whole-stack operations
RUNS_PROGRAM_TEXT = {"Ė", "†"}  # on a string: executes it as a Vyxal program on the current stack (the "call" family)
NONDETERMINISTIC = {"℅", "Þ℅", "ÞB", "kD", "kN", "kḋ", "kḊ", "kð", "¨U"}
EXIT = {"Q"}


_FN_CODE = []


def make_fn():
    """a fresh lambda value (λ›;) produced by the real transpiler"""
    if not _FN_CODE:
        _FN_CODE.append(compile(sandbox.transpile("λ›;"), "<fn>", "exec"))
    ns = sandbox.base_namespace()
    st = []
    ns["stack"], ns["ctx"] = st, sandbox.fresh_ctx()
    exec(_FN_CODE[0], ns)
    return st[-1]


def make(spec):
    import sympy
    from vyxal.LazyList import LazyList

    if isinstance(spec, tuple) and spec[0] == "fn":
        return make_fn()
    if isinstance(spec, tuple) and spec[0] == "fnlist":
        return [make_fn(), 5]

    if isinstance(spec, tuple) and spec[0] == "lazy":
        return LazyList(iter([make(x) for x in spec[1]]))
    if isinstance(spec, Fraction):
        return sympy.Rational(spec.numerator, spec.denominator)
    if isinstance(spec, list):
        return [make(x) for x in spec]
    return spec


def denote(spec):
    """The python value a spec denotes (what pyval() of an unchanged value must give)."""
    if isinstance(spec, tuple) and spec[0] == "fn":
        return ("fn",)
    if isinstance(spec, tuple) and spec[0] == "fnlist":
        return [("fn",), 5]
    if isinstance(spec, tuple) and spec[0] == "lazy":
        return [denote(x) for x in spec[1]]
    if isinstance(spec, list):
        return [denote(x) for x in spec]
    return spec


def spec_name(spec):
    if isinstance(spec, tuple) and spec[0] in ("fn", "fnlist"):
        return {"fn": "<lambda λ›;>", "fnlist": "[<lambda λ›;>, 5]"}[spec[0]]
    if isinstance(spec, tuple):
        return "lazy" + repr(spec[1])
    return repr(spec) if not isinstance(spec, Fraction) else str(spec)


def kind_of(spec):
    if isinstance(spec, tuple) and spec[0] in ("fn", "fnlist"):
        return spec[0]
    if isinstance(spec, tuple):
        return "lazy"
    if isinstance(spec, list):
        return "nested" if any(isinstance(x, list) for x in spec) else ("list" if spec else "emptylist")
    if isinstance(spec, str):
        return "str"
    return "num"


def table():
    sandbox.setup()
    import vyxal.elements as E

    return {k: v[1] for k, v in E.elements.items()}


FN_VALUES = [("fn",), ("fnlist",)]


def tuples_for(arity, tier):
    if arity == 0:
        return [()]
    if arity == 1:
        dom = V_FULL if tier == "thorough" else V_QUICK
        return [(d,) for d in dom] + [(f,) for f in FN_VALUES]   # monads also see a function and a list holding one
    if arity == 2:
        dom = V_FULL if tier == "thorough" else V_QUICK
        return list(itertools.product(dom, repeat=2)) + [(f, d) for f in FN_VALUES for d in (3, [1, 2, 3])] + [(d, f) for f in FN_VALUES for d in (3, [1, 2, 3])]
    if arity >= 3:
        dom = V_TRIAD if tier == "thorough" else V_TRIAD[:4] + V_TRIAD[5:]
        return list(itertools.product(dom, repeat=3))
    dom = V_FULL if tier == "thorough" else V_QUICK
    return list(itertools.product(dom, repeat=arity))


class Outcome:
    __slots__ = ("key", "specs", "prefix", "prefix_snapshot", "args", "stack", "exc", "ctx", "aliases", "alias_specs")


def run_case(key, specs, timeout=5.0):
    """Run element `key` on sentinel prefix + fresh args built from specs."""
    o = Outcome()
    o.key, o.specs = key, specs
    o.prefix = [[7, [8]], "S", 7]
    o.prefix_snapshot = [[7, [8]], "S", 7]
    o.args = [make(s) for s in specs]
    # a second reference to every list-like argument sits below the arguments (aliasing is how duplicates, variables and the
    # register share values); prefix[0..2] stay the plain sentinels
    o.alias_specs = [s for s in specs if kind_of(s) in ("lazy", "list", "nested", "emptylist")]
    o.aliases = [a for s, a in zip(specs, o.args) if kind_of(s) in ("lazy", "list", "nested", "emptylist")]
    import random

    random.seed(0)
    stack, exc, ctx = sandbox.apply_element(key, o.prefix + o.aliases + o.args, timeout=timeout)
    o.stack, o.exc, o.ctx = stack, exc, ctx
    return o


def shards(tier, nshards=64):
    """(key, specs) work list, heavy keys spread over shards."""
    tab = table()
    work = []
    for key, ar in tab.items():
        for specs in tuples_for(max(ar, 0), tier):
            work.append((key, specs))
    return explore.chunks(work, nshards)
