"""The explorer: exhaustive flat enumeration and explicit-state BFS, sharded over a
pool of long-lived forked workers.  Never samples: VERIF_SEED only permutes the
order in which shards are handed out (results are merged order-independently)."""
from __future__ import annotations

import multiprocessing as mp
import os
import random
from collections import deque

from . import sandbox

NPROC = int(os.environ.get("VERIF_NPROC", "0")) or min(16, os.cpu_count() or 1)


class Partial:
    """What one shard reports back (plain data, picklable)."""

    def __init__(self):
        self.d = {"evaluations": 0, "nontrivial": set(), "nontrivial_n": 0, "outcomes": set(),
                  "violations": [], "skipped": {}, "caps": [], "samples": [], "sections": {}}

    def count(self, n=1):
        self.d["evaluations"] += n

    def nontriv(self, key=None):
        if key is None:
            self.d["nontrivial_n"] += 1
        else:
            self.d["nontrivial"].add(key)

    def outcome(self, key):
        if len(self.d["outcomes"]) < 200000:
            self.d["outcomes"].add(key)

    def skip(self, why, n=1):
        self.d["skipped"][why] = self.d["skipped"].get(why, 0) + n

    def cap(self, what):
        if len(self.d["caps"]) < 20:
            self.d["caps"].append(what)

    def sample(self, x):
        if len(self.d["samples"]) < 3:
            self.d["samples"].append(sandbox.jsonable(x))

    def section(self, name, **kv):
        s = self.d["sections"].setdefault(name, {})
        for k, v in kv.items():
            s[k] = s.get(k, 0) + v

    def violation(self, kind, case, signature, tags=None, expected=None, observed=None, size=0):
        if len(self.d["violations"]) < 400:
            self.d["violations"].append(dict(
                kind=kind, case=sandbox.jsonable(case), signature=signature, tags=tags or {},
                expected=sandbox.jsonable(expected), observed=sandbox.jsonable(observed), size=size))
        else:
            self.d["sections"].setdefault("overflow", {}).setdefault("violations_dropped", 0)
            self.d["sections"]["overflow"]["violations_dropped"] += 1

    def data(self):
        return self.d


_WORK = None


def _init_worker():
    sandbox.setup()
    if os.environ.get("VMC_FAULT_DIR"):   # debugging aid: kill -USR1 <worker> writes its Python stack to $VMC_FAULT_DIR/<pid>.log
        import faulthandler
        import signal

        faulthandler.register(signal.SIGUSR1, file=open(os.path.join(os.environ["VMC_FAULT_DIR"], "%d.log" % os.getpid()), "w"), all_threads=True)
    import random as _r

    _r.seed(0)


def _call(args):
    fn, shard = args
    sandbox.reset_ids()
    return fn(shard)


def pmap(fn, shards, report, seed=0, nproc=None, fresh=False):
    """Run fn(shard)->Partial.data() for every shard on the pool; merge into report.
    fresh=True: every shard runs in a newly forked child of this process (no state left behind by an earlier shard:
    module-level caches, functools caches), for histories whose verdict must not depend on what a worker ran before.
    fn must be a module-level function.  Shard order is permuted by seed (only the
    schedule changes, not the set of shards)."""
    shards = list(shards)
    order = list(range(len(shards)))
    random.Random(seed).shuffle(order)
    nproc = nproc or NPROC
    if (nproc <= 1 or len(shards) <= 1) and not fresh:
        _init_worker()
        for i in order:
            report.merge_partial(_call((fn, shards[i])))
        return
    ctx = mp.get_context("fork")
    sandbox.setup()  # import once, share by fork
    with ctx.Pool(min(nproc, len(shards)), initializer=_init_worker, maxtasksperchild=1 if fresh else None) as pool:
        for part in pool.imap_unordered(_call, [(fn, shards[i]) for i in order], chunksize=1):
            report.merge_partial(part)


def chunks(seq, n):
    """Split seq into at most n interleaved shards (deterministic)."""
    seq = list(seq)
    n = max(1, min(n, len(seq)))
    return [seq[i::n] for i in range(n)]


def bfs(initial_hist, enabled, build, canon, check, depth, on_state=None):
    """Explicit-state search over the real transition function.
    A state is the history reaching it; build(hist) re-executes on fresh objects.
    check(hist, state) is the oracle on every new transition (returns None or raises/records).
    Returns (states, transitions, max_depth, dedup_hits)."""
    s0 = build(list(initial_hist))
    seen = {canon(s0)}
    frontier = deque([list(initial_hist)])
    transitions = 0
    dedup = 0
    maxd = 0
    while frontier:
        hist = frontier.popleft()
        if len(hist) - len(initial_hist) >= depth:
            continue
        st = build(hist)
        for ev in enabled(st, hist):
            nh = hist + [ev]
            nxt = build(nh)
            transitions += 1
            check(nh, nxt)
            k = canon(nxt)
            if k in seen:
                dedup += 1
                continue
            seen.add(k)
            maxd = max(maxd, len(nh) - len(initial_hist))
            if on_state:
                on_state(nh, nxt)
            frontier.append(nh)
    return len(seen), transitions, maxd, dedup
