"""Collects what a check covered and found; matches violations against the
committed known-findings file; writes replay artefacts and the evidence file."""
from __future__ import annotations

import hashlib
import json
import os
import subprocess
import sys
import time

from . import sandbox

VERIF = os.path.dirname(os.path.dirname(os.path.dirname(os.path.abspath(__file__))))
# (overridable so that detection experiments on scratch copies do not overwrite the committed evidence)
EVIDENCE_DIR = os.environ.get("VERIF_EVIDENCE_DIR") or os.path.join(VERIF, "evidence")
REPLAY_DIR = os.environ.get("VERIF_REPLAY_DIR") or os.path.join(VERIF, "replays")
KNOWN = os.path.join(VERIF, "known_findings.json")
SCHEMA = "/root/.vp/EVIDENCE.schema.json"
MAX_PRINT = 20


def load_known():
    try:
        with open(KNOWN, encoding="utf-8") as f:
            data = json.load(f)
    except FileNotFoundError:
        return []
    return [e for e in data.get("findings", []) if e.get("status", "open") == "open"]


class Violation:
    __slots__ = ("kind", "case", "signature", "tags", "expected", "observed", "size")

    def __init__(self, kind, case, signature, tags=None, expected=None, observed=None, size=0):
        self.kind = kind
        self.case = case
        self.signature = signature
        self.tags = tags or {}
        self.expected = expected
        self.observed = observed
        self.size = size

    def as_dict(self, prop):
        return {
            "property": prop,
            "kind": self.kind,
            "case": sandbox.jsonable(self.case),
            "signature": self.signature,
            "tags": sandbox.jsonable(self.tags),
            "expected": sandbox.jsonable(self.expected),
            "observed": sandbox.jsonable(self.observed),
        }

    def sortkey(self):
        return (self.size, json.dumps(sandbox.jsonable(self.case), sort_keys=True, ensure_ascii=False))


def finding_matches(entry, v: Violation) -> bool:
    """A violation is attributed to a listed finding only if the signature is the listed
    one AND every `where` tag equals the violation's tag of that name.  Deterministic,
    no search; anything else is a VIOLATION."""
    if entry.get("signature") != v.signature:
        return False
    for k, want in (entry.get("where") or {}).items():
        if v.tags.get(k) != want:
            return False
    return True


class Report:
    def __init__(self, prop: str, tier: str, seed: int, level: str):
        self.prop = prop
        self.tier = tier
        self.seed = seed
        self.level = level
        self.t0 = time.time()
        self.evaluations = 0
        self.nontrivial = set()
        self.outcomes = set()
        self.violations: list[Violation] = []
        self.samples = []
        self.caps = []
        self.skipped = {}
        self.extra = {}
        self.rule = ""
        self.assumptions = []
        self.exhaustive = True
        self.sections = {}

    # -- counting
    def count(self, n=1):
        self.evaluations += n

    def nontriv(self, key):
        self.nontrivial.add(key if isinstance(key, (str, int, tuple)) else repr(key))

    def outcome(self, key):
        if len(self.outcomes) < 2_000_000:
            self.outcomes.add(key)

    def skip(self, why, n=1):
        self.skipped[why] = self.skipped.get(why, 0) + n

    def cap(self, what):
        self.exhaustive = False
        if len(self.caps) < 50:
            self.caps.append(what)

    def sample(self, x, every=1):
        if len(self.samples) < 12:
            self.samples.append(sandbox.jsonable(x))

    def section(self, name, **kv):
        d = self.sections.setdefault(name, {})
        for k, v in kv.items():
            d[k] = d.get(k, 0) + v if isinstance(v, (int, float)) and not isinstance(v, bool) else v

    def violation(self, kind, case, signature, tags=None, expected=None, observed=None, size=0):
        self.violations.append(Violation(kind, case, signature, tags, expected, observed, size))

    def merge_partial(self, p: dict):
        """Merge a worker's partial result (see explore.Partial)."""
        self.evaluations += p.get("evaluations", 0)
        for k in p.get("nontrivial", ()):  # keys
            self.nontrivial.add(k)
        self.extra["nontrivial_count_extra"] = self.extra.get("nontrivial_count_extra", 0) + p.get("nontrivial_n", 0)
        for k in p.get("outcomes", ()):  # keys
            self.outcome(k)
        for v in p.get("violations", ()):  # dicts
            self.violation(**v)
        for k, n in p.get("skipped", {}).items():
            self.skip(k, n)
        for c in p.get("caps", ()):  # strings
            self.cap(c)
        for s in p.get("samples", ()):  # any
            self.sample(s)
        for name, kv in p.get("sections", {}).items():
            self.section(name, **kv)

    # -- finishing
    def finish(self) -> int:
        known = load_known()
        known = [e for e in known if e.get("property") == self.prop]
        attributed = {}
        fresh = []
        for v in sorted(self.violations, key=Violation.sortkey):
            hit = None
            for e in known:
                if finding_matches(e, v):
                    hit = e
                    break
            if hit is not None:
                attributed.setdefault(hit["id"], [hit, 0, v])
                attributed[hit["id"]][1] += 1
            else:
                fresh.append(v)
        # de-duplicate fresh by signature+tags for printing (all are counted)
        lines = []
        rev = sandbox.repo_rev()
        printed_sigs = set()
        os.makedirs(os.path.join(REPLAY_DIR, self.prop), exist_ok=True)
        for v in fresh:
            sig = (v.signature, json.dumps(sandbox.jsonable(v.tags), sort_keys=True))
            if sig in printed_sigs:
                continue
            printed_sigs.add(sig)
            if len(lines) >= MAX_PRINT:
                continue
            d = v.as_dict(self.prop)
            d["repo_rev"] = rev
            blob = json.dumps(d, sort_keys=True, ensure_ascii=False, indent=1)
            sha = hashlib.sha1(blob.encode("utf-8")).hexdigest()[:12]
            path = os.path.join(REPLAY_DIR, self.prop, sha + ".json")
            with open(path, "w", encoding="utf-8") as f:
                f.write(blob + "\n")
            lines.append("VIOLATION property=%s replay=%s" % (self.prop, path))
            lines.append("  # %s | %s" % (v.signature, json.dumps(sandbox.jsonable(v.case), ensure_ascii=False)[:300]))
        for fid, (e, n, v) in sorted(attributed.items()):
            print("KNOWN-FINDING: property=%s %s [%s] (%d cases attributed)" % (
                self.prop, e.get("what", e.get("signature")), fid, n))
        for ln in lines:
            print(ln)
        if fresh:
            print("%s: %d violating cases, %d distinct signatures (first %d printed)" % (
                self.prop, len(fresh), len(printed_sigs), min(len(printed_sigs), MAX_PRINT)))
        wall = time.time() - self.t0
        skipped_total = sum(self.skipped.values())
        nontriv = len(self.nontrivial) + self.extra.pop("nontrivial_count_extra", 0)
        cov = {
            "evaluations": int(self.evaluations),
            "distinct_nontrivial": int(nontriv),
            "rule": self.rule,
            "samples": self.samples or [None],
            "exhaustive": bool(self.exhaustive and not self.caps),
            "distinct_outcomes": len(self.outcomes),
            "skipped_out_of_domain": self.skipped,
            "caps": self.caps,
            "sections": self.sections,
            "known_findings_attributed": {fid: n for fid, (e, n, v) in attributed.items()},
            "repo_rev": rev,
        }
        cov.update(self.extra)
        ev = {
            "property_id": self.prop,
            "tier": self.tier,
            "seed": int(self.seed),
            "level": self.level,
            "coverage": cov,
            "assumptions": self.assumptions,
            "wall_s": round(wall, 2),
            "violations": len(fresh),
        }
        os.makedirs(EVIDENCE_DIR, exist_ok=True)
        path = os.path.join(EVIDENCE_DIR, self.prop + ".json")
        with open(path, "w", encoding="utf-8") as f:
            json.dump(ev, f, ensure_ascii=False, indent=1, sort_keys=True)
            f.write("\n")
        ok_schema = validate_evidence(path)
        print("%s tier=%s seed=%d evaluations=%d distinct_nontrivial=%d outcomes=%d skipped=%d caps=%d "
              "violations=%d known=%d exhaustive=%s wall=%.1fs evidence=%s" % (
                  self.prop, self.tier, self.seed, self.evaluations, nontriv, len(self.outcomes),
                  skipped_total, len(self.caps), len(fresh), len(attributed), cov["exhaustive"], wall,
                  "valid" if ok_schema else "UNVALIDATED"))
        if self.evaluations and skipped_total > 0.5 * (self.evaluations + skipped_total) and not self.extra.get("allow_skips"):
            print("HARNESS-ERROR: more than half of the cases were out of domain: vacuous run")
            return 2
        return 1 if fresh else 0


def validate_evidence(path) -> bool:
    code = (
        "import json,sys,jsonschema\n"
        "s=json.load(open(%r)); d=json.load(open(%r))\n"
        "jsonschema.Draft202012Validator(s).validate(d)\n" % (SCHEMA, path)
    )
    if not os.path.exists(SCHEMA):
        return False
    try:
        p = subprocess.run(["python3-vt", "-c", code], capture_output=True, text=True, timeout=60)
    except Exception:
        return False
    if p.returncode != 0:
        sys.stdout.write("EVIDENCE-SCHEMA-ERROR: " + p.stderr[-600:] + "\n")
        return False
    return True
