"""CLI:  python -m vmc.run C13 --tier quick|thorough   |   python -m vmc.run C13 --replay <file>

exit 0: property held on everything explored (KNOWN-FINDING lines allowed)
exit 1: at least one `VIOLATION property=<id> replay=<path>` line
exit 2: harness error (never a verdict)
"""
from __future__ import annotations

import argparse
import importlib
import json
import os
import sys
import traceback


def main(argv=None):
    ap = argparse.ArgumentParser()
    ap.add_argument("prop")
    ap.add_argument("--tier", default=os.environ.get("VERIF_TIER", "quick"), choices=["quick", "thorough"])
    ap.add_argument("--replay")
    args = ap.parse_args(argv)

    # own the hash seed: re-exec once with PYTHONHASHSEED=0
    if os.environ.get("PYTHONHASHSEED") != "0":
        env = dict(os.environ, PYTHONHASHSEED="0")
        os.execve(sys.executable, [sys.executable, "-m", "vmc.run"] + (argv or sys.argv[1:]), env)

    try:
        seed = int(os.environ.get("VERIF_SEED", "0") or 0)
    except ValueError:
        seed = 0
    prop = args.prop.upper()
    here = os.path.dirname(os.path.abspath(__file__))
    os.chdir(os.path.dirname(here))
    try:
        from vmc.core import sandbox

        sandbox.setup()
        mod = importlib.import_module("vmc.props." + prop.lower())
        if args.replay:
            with open(args.replay, encoding="utf-8") as f:
                art = json.load(f)
            still = mod.replay(art)
            if still:
                print("VIOLATION property=%s replay=%s" % (prop, args.replay))
                print("  # " + str(still)[:400])
                return 1
            print("replay %s: no longer fails" % args.replay)
            return 0
        rep = mod.run(args.tier, seed)
        return rep.finish()
    except SystemExit:
        raise
    except BaseException:
        traceback.print_exc()
        print("HARNESS-ERROR: %s crashed (this is not a verdict)" % prop)
        return 2


if __name__ == "__main__":
    sys.exit(main())
