"""setup_cmd: nothing to build (pure Python); checks the environment and re-establishes that the
harness can fail: three in-process mutations of the code under test must each be detected."""
from __future__ import annotations

import os
import sys


def main():
    if os.environ.get("PYTHONHASHSEED") != "0":
        os.execve(sys.executable, [sys.executable, "-m", "vmc.selftest"], dict(os.environ, PYTHONHASHSEED="0"))
    from vmc.core import sandbox

    sandbox.setup()
    import vyxal.LazyList as LL

    from vmc.props import c13

    ok = True
    # 1. unmutated: a few fixed histories agree
    for hist in (["bool", "bool"], ["idx-1", "len"], ["s[0:5]"], ["len", "bool", "iter"]):
        bad, _, _ = c13.run_history([0, 1], "iter", hist)
        if bad:
            print("selftest: unexpected disagreement on unmutated tree:", hist, bad)
    # 2. mutation: bool pulls from the source (the pre-fix behaviour)
    orig = LL.LazyList.__bool__

    def bad_bool(self):
        try:
            next(self)
            return True
        except StopIteration:
            return False

    LL.LazyList.__bool__ = bad_bool
    bad, _, _ = c13.run_history([0], "iter", ["bool", "bool"])
    LL.LazyList.__bool__ = orig
    if not bad:
        print("selftest FAILED: mutated __bool__ not detected")
        ok = False
    # 3. mutation: __len__ off by one after indexing
    orig_len = LL.LazyList.__len__
    LL.LazyList.__len__ = lambda self: orig_len(self) + (1 if self.generated else 0)
    bad, _, _ = c13.run_history([0, 1], "iter", ["idx0", "len"])
    LL.LazyList.__len__ = orig_len
    if not bad:
        print("selftest FAILED: mutated __len__ not detected")
        ok = False
    # 4. python3-vt + jsonschema available for evidence validation
    import subprocess

    p = subprocess.run(["python3-vt", "-c", "import jsonschema"], capture_output=True)
    if p.returncode != 0:
        print("selftest: WARNING python3-vt/jsonschema unavailable; evidence is written unvalidated")
    print("selftest", "ok" if ok else "FAILED")
    return 0 if ok else 1


if __name__ == "__main__":
    sys.exit(main())
