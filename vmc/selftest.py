"""setup_cmd: nothing to build (pure Python); checks the environment and re-establishes that the
harness can fail: three in-process mutations of the code under test must each be detected."""
from __future__ import annotations

import os
import sys


def main():
    if os.environ.get("PYTHONHASHSEED") != "0":
        os.execve(sys.executable, [sys.executable, "-m", "vmc.selftest"], dict(os.environ, PYTHONHASHSEED="0"))
    from vmc.core import sandbox

    sandbox.setup()
    import vyxal.LazyList as LL

    from vmc.props import c13

    ok = True
    # 1. unmutated: a few fixed histories agree
    for hist in (["bool", "bool"], ["idx-1", "len"], ["s[0:5]"], ["len", "bool", "iter"]):
        bad, _, _ = c13.run_history([0, 1], "iter", hist)
        if bad:
            print("selftest: unexpected disagreement on unmutated tree:", hist, bad)
    # 2. mutation: bool pulls from the source (the pre-fix behaviour)
    orig = LL.LazyList.__bool__

    def bad_bool(self):
        try:
            next(self)
            return True
        except StopIteration:
            return False

    LL.LazyList.__bool__ = bad_bool
    bad, _, _ = c13.run_history([0], "iter", ["bool", "bool"])
    LL.LazyList.__bool__ = orig
    if not bad:
        print("selftest FAILED: mutated __bool__ not detected")
        ok = False
    # 3. mutation: __len__ off by one after indexing
    orig_len = LL.LazyList.__len__
    LL.LazyList.__len__ = lambda self: orig_len(self) + (1 if self.generated else 0)
    bad, _, _ = c13.run_history([0, 1], "iter", ["idx0", "len"])
    LL.LazyList.__len__ = orig_len
    if not bad:
        print("selftest FAILED: mutated __len__ not detected")
        ok = False
    # 3b. C11: implicit reads wrongly served from the program inputs inside a lambda
    import vyxal.helpers as H

    from vmc.core import explore
    from vmc.props import c11

    c11.install()
    wrapped = H.get_input
    real = wrapped.__wrapped__

    def bad_get_input(ctx):
        if ctx.inputs[0][0]:
            v = ctx.inputs[0][0][ctx.inputs[0][1] % len(ctx.inputs[0][0])]
            ctx.inputs[0][1] += 1
            return v
        return 0

    import types

    # re-wrap the mutated function with the logging wrapper's closure cell
    cell = [c for c in wrapped.__closure__ if isinstance(c.cell_contents, types.FunctionType) and c.cell_contents is real]
    part = explore.Partial()
    if cell:
        cell[0].cell_contents = bad_get_input
        c11.check(part, (c11.PUSH, c11.lam(1, c11.P1, c11.P1)), [101, 102])
        cell[0].cell_contents = real
        if not part.d["violations"]:
            print("selftest FAILED: mutated get_input not detected by C11")
            ok = False
    else:
        print("selftest FAILED: could not interpose get_input")
        ok = False
    # 3c. C19: online evaluation through eval() must be seen by the audit hook
    import vyxal.elements as E
    import vyxal.main as M

    from vmc.props import c19

    orig_eval = H.vy_eval

    def bad_eval(item, ctx):
        try:
            return H.vyxalify(eval(item))
        except Exception:
            return item

    for mod in (H, E, M):
        mod.vy_eval = bad_eval
    part = explore.Partial()
    c19.check(part, ("S1", "E"), "none", "")
    for mod in (H, E, M):
        mod.vy_eval = orig_eval
    if not any("executed as Python" in v["signature"] for v in part.d["violations"]):
        print("selftest FAILED: eval() of tainted text in online mode not detected by C19")
        ok = False
    part = explore.Partial()
    c19.check(part, ("S1", "E"), "none", "")
    if part.d["violations"]:
        print("selftest: unexpected C19 violation on the unmutated tree", part.d["violations"][:1])
    # 4. python3-vt + jsonschema available for evidence validation
    import subprocess

    p = subprocess.run(["python3-vt", "-c", "import jsonschema"], capture_output=True)
    if p.returncode != 0:
        print("selftest: WARNING python3-vt/jsonschema unavailable; evidence is written unvalidated")
    print("selftest", "ok" if ok else "FAILED")
    return 0 if ok else 1


if __name__ == "__main__":
    sys.exit(main())
