"""C19 - online mode contains the program: no host output, no evaluation of user text. (E), exhaustive."""
from __future__ import annotations

import builtins
import contextlib
import io
import itertools
import os
import sys
import tempfile

from vmc.core import explore, sandbox
from vmc.core.report import Report

PROP = "C19"

TAINT_STRINGS = {
    "S1": "TAINT_1()",
    "S2": "[TAINT_2(), 2]",
    "S3": "__import__('builtins').TAINT_3()",
    "S4": "1 if TAINT_4() else 0",     # starts like a number
    "S5": "-2+TAINT_4()",
    "S6": "\\\");__import__('builtins').TAINT_6();#",   # a backslash right before a double quote, then Python, then a comment
}
TOKENS = {
    "S1": "`TAINT_1()`", "S2": "`[TAINT_2(), 2]`", "S3": "`__import__('builtins').TAINT_3()`",
    "S4": "`1 if TAINT_4() else 0`", "S5": "`-2+TAINT_4()`", "S6": "`\\\");__import__('builtins').TAINT_6();#`",
    "?": "?", "E": "E", "†": "†", "Ė": "Ė", ":": ":", "w": "w", "ɾ": "3ɾ", "list": "⟨`TAINT_1()`|2⟩", "lam": "λ`TAINT_1()`;",
    ",": ",", "…": "…", "₴": "₴", "¨,": "¨,", "¨…": "¨…", "err": "¼", "3": "3", "W": "W", "_": "_",
}
QUICK_TOKENS = ["S1", "S3", "S4", "S6", "?", "E", "†", "Ė", "w", "ɾ", "list", "lam", ",", "…", "₴", "¨,", "err", "3"]
INPUTS = {"none": "", "expr": "TAINT_5()", "list": "[TAINT_6(), 1]", "three": "3", "two-lines": "TAINT_5()\n`x`",
          "digit-expr": "2 if TAINT_7() else 0", "signed-expr": "-1+TAINT_7()", "float-expr": "1.5*TAINT_7()",
          "quote-breakout": "`\\\");__import__('builtins').TAINT_7();#`",
          # valid Python literals that have no Vyxal value: must be kept as strings / reported, never propagate
          "None": "None", "list-with-None": "[1, None]", "ellipsis": "...", "inf": "1e999", "set": "{1, 2}", "dict": "{1: 2}",
          "bytes": "b'x'", "tuple": "(1, 2)", "bool": "True", "complex": "1j", "nested-set": "{(1, 2)}"}
LITERAL_INPUTS = ["None", "list-with-None", "ellipsis", "inf", "set", "dict", "bytes", "tuple", "bool", "complex", "nested-set", "quote-breakout"]
FLAGS = ["", "c", "j", "W"]

_calls = []
_tainted_exec = []
_hook_installed = [False]


def _names_in(code, depth=0):
    """taint markers that were PARSED as identifiers: names of the code object, or (what an expression parser such as sympy's
    makes of an unknown name) a string constant that is exactly the bare identifier. The transpiled program itself only ever
    contains the whole user string "TAINT_n()..." as a constant, never the bare identifier."""
    out = [n for n in code.co_names if n.startswith("TAINT_")]
    out += [c for c in code.co_consts if isinstance(c, str) and len(c) == 7 and c.startswith("TAINT_") and c[6].isdigit()]
    if depth < 6:
        for c in code.co_consts:
            if hasattr(c, "co_names"):
                out += _names_in(c, depth + 1)
    return out


def _audit(event, args):
    if event == "exec":
        try:
            code = args[0]
            if hasattr(code, "co_names"):
                hit = _names_in(code)
                if hit:
                    _tainted_exec.append(sorted(set(hit)))
        except Exception:
            pass


def install():
    if _hook_installed[0]:
        return
    sys.addaudithook(_audit)
    for i in range(1, 8):
        def rec(*a, _i=i, **k):
            _calls.append("TAINT_%d" % _i)
            return 1

        setattr(builtins, "TAINT_%d" % i, rec)
    _hook_installed[0] = True


_TMP = {}


@contextlib.contextmanager
def capture_fd1():
    """host stdout at file-descriptor level (one scratch file per worker process, reused)"""
    pid = os.getpid()
    if _TMP.get("pid") != pid:
        _TMP["pid"] = pid
        _TMP["file"] = tempfile.TemporaryFile(mode="w+b")
    tmp = _TMP["file"]
    sys.stdout.flush()
    saved = os.dup(1)
    os.dup2(tmp.fileno(), 1)
    box = {}
    try:
        yield box
    finally:
        try:
            sys.stdout.flush()
        except Exception:
            pass
        os.dup2(saved, 1)
        os.close(saved)
        size = os.lseek(tmp.fileno(), 0, os.SEEK_CUR)
        if size:
            os.lseek(tmp.fileno(), 0, os.SEEK_SET)
            box["data"] = os.read(tmp.fileno(), size).decode("utf-8", "replace")
            os.lseek(tmp.fileno(), 0, os.SEEK_SET)
            os.ftruncate(tmp.fileno(), 0)
        else:
            box["data"] = ""


def run_online(program, flags, inputs, timeout=5.0):
    install()
    del _calls[:]
    del _tainted_exec[:]
    out = {1: "", 2: ""}
    with capture_fd1() as box:
        py_out, exc = sandbox.execute_vyxal(program, flags, inputs, online=True, out=out, timeout=timeout)
    return out, py_out, box["data"], exc, list(_calls), list(_tainted_exec)


def run_offline(program, flags, inputs):
    py_out, exc = sandbox.execute_vyxal(program, flags, [x for x in inputs.split("\n") if x != ""] if inputs else [], timeout=5.0)
    return py_out, exc


def render(tokens):
    return " ".join(TOKENS[t] for t in tokens)


def pure(tokens, inputs_name):
    """offline and online must print the same text: no eval/call/exec of strings, no tainted inputs"""
    return not (set(tokens) & {"E", "†", "Ė", "?"}) and inputs_name in ("none",)


def check(part, tokens, inputs_name, flags):
    program = render(tokens)
    inputs = INPUTS[inputs_name]
    out, py_out, fd_out, exc, calls, texec = run_online(program, flags, inputs)
    part.count()
    case = {"program": program, "tokens": list(tokens), "inputs": inputs, "flags": flags}
    tags = {"last": tokens[-1] if tokens else "", "inputs": inputs_name, "flags": flags}
    size = len(tokens) * 100 + len(inputs) + len(flags)
    part.outcome((bool(out[1]), bool(out[2]), type(exc).__name__))
    if isinstance(exc, sandbox.CaseTimeout):
        part.cap("watchdog: " + program)
        return
    if texec:
        part.violation("online", case, "user-supplied text was compiled and executed as Python in online mode",
                       dict(tags, what="tainted exec"), "no exec event whose code references a taint name", texec[:3], size=size)
    if calls:
        part.violation("online", case, "user-supplied text was evaluated in online mode (taint function called)",
                       dict(tags, what="taint call"), "no call", calls[:3], size=size)
    if fd_out or py_out:
        part.violation("online", case, "online mode wrote to the host's standard output",
                       dict(tags, what="host stdout"), "", (fd_out or py_out)[:120], size=size)
    if exc is not None and not isinstance(exc, SystemExit):
        part.violation("online", case, "an exception escaped execute_vyxal in online mode",
                       dict(tags, what="escaped " + type(exc).__name__), "errors go to the error record",
                       "%s: %s" % (type(exc).__name__, str(exc)[:100]), size=size)
    if isinstance(exc, SystemExit) and exc.code not in (0, None) and not out[2].strip():
        part.violation("online", case, "online run failed but the error record is empty",
                       dict(tags, what="empty error record"), "traceback in out[2]", repr(out[2])[:80], size=size)
    if pure(tokens, inputs_name) and exc is None and "c" not in flags:
        off, oexc = run_offline(program, flags, inputs)
        if oexc is None and off != out[1]:
            part.violation("online", case, "text printed offline is missing from / differs in the online output record",
                           dict(tags, what="record differs"), off[:200], out[1][:200], size=size)
    part.nontriv()


def _shard(args):
    progs_, inputs_names, flags = args
    part = explore.Partial()
    for toks in progs_:
        for i in inputs_names:
            for f in flags:
                check(part, toks, i, f)
    return part.data()


def higher_order_programs():
    """every element documented to take a function, fed a lambda that prints / evaluates tainted text (the element must run the
    lambda under the caller's context), in both argument orders, with and without forcing a lazy result"""
    from vmc.core import yamlread

    fun_keys = sorted({e["key"] for e in yamlread.read() if e["kind"] == "element" and any("fun" in sig for sig in e["overloads"])} | {"Ḟ", "Þ↑", "Þ↓"})
    out = []
    lam_print, lam_eval = "λ,1;", "λE;"
    lst, tainted = "3ɾ", "⟨`TAINT_1()`|`1 if TAINT_4() else 0`|`__import__('builtins').TAINT_3()`⟩"
    for k in fun_keys:
        for force in ("", "f", "L", "4Ẏ"):
            out.append(("%s %s %s %s" % (lst, lam_print, k, force), k))
            out.append(("%s %s %s %s" % (lam_print, lst, k, force), k))
            out.append(("%s %s %s %s" % (tainted, lam_eval, k, force), k))
            out.append(("%s %s %s %s" % (lam_eval, tainted, k, force), k))
    return out


def _ho_shard(progs_):
    part = explore.Partial()
    for program, key in progs_:
        for flags in ("", "j"):
            if flags == "j" and len(program) < 60 and "λ" not in program:
                continue  # the element sweep runs with the default flags only
            out, py_out, fd_out, exc, calls, texec = run_online(program, flags, "", timeout=1.5)
            part.count()
            part.nontriv()
            case = {"program": program, "tokens": [], "inputs": "", "flags": flags, "element": key}
            tags = {"last": key, "inputs": "none", "flags": flags, "section": "higher-order"}
            size = 1000 + len(program)
            if isinstance(exc, sandbox.CaseTimeout):
                part.skip("higher-order program did not return within the backstop")
                continue
            if texec or calls:
                if "λ" in program or key in ("E", "†", "Ė"):
                    part.violation("online", case, "user-supplied text was compiled and executed as Python in online mode",
                                   dict(tags, what="tainted exec"), "no exec / call of tainted text", (texec or calls)[:3], size=size)
                else:
                    # the property names the evaluate element, the call element and input parsing; other elements that hand a
                    # string to sympy's expression parser (which evaluates it) are reported as a REMARK, not judged
                    part.section("remark_other_elements_that_evaluate_strings_online", **{key: 1})
            if fd_out or py_out:
                part.violation("online", case, "online mode wrote to the host's standard output",
                               dict(tags, what="host stdout"), "", (fd_out or py_out)[:120], size=size)
            if exc is not None and not isinstance(exc, SystemExit):
                part.violation("online", case, "an exception escaped execute_vyxal in online mode",
                               dict(tags, what="escaped " + type(exc).__name__), "errors go to the error record",
                               "%s: %s" % (type(exc).__name__, str(exc)[:100]), size=size)
    part.section("higher_order", programs=len(progs_))
    return part.data()


def all_element_programs():
    """every key of the element table applied to tainted strings in each argument position (online mode must never run them as
    Python, whatever the element does with strings)"""
    sandbox.setup()
    import vyxal.elements as E

    out = []
    taints = ["`TAINT_1()`", "`__import__('builtins').TAINT_3()`", "`1 if TAINT_4() else 0`"]
    for k, (tmpl, ar) in E.elements.items():
        if k in ("¨U", "Q", "□", "?"):
            continue  # network access / exit / raw stdin
        for t in taints:
            if ar <= 1:
                out.append(("%s %s" % (t, k), k))
            elif ar == 2:
                out += [("%s 3 %s" % (t, k), k), ("3 %s %s" % (t, k), k), ("%s %s %s" % (t, t, k), k)]
            else:
                out += [("%s 3 3 %s" % (t, k), k), ("3 %s 3 %s" % (t, k), k), ("3 3 %s %s" % (t, k), k)]
    return out


# programs that print something and then FAIL (unbounded recursion, a bad regular expression, popping the empty global array, an error
# while a lazy list is being printed): what was printed before must be in the output record, the error in the error record
FAIL_PRINTS = [("", ""), ("1,", "1\n"), ("3ɾ,", "⟨ 1 | 2 | 3 ⟩\n"), ("70(n,)", "".join("%d\n" % i for i in range(1, 71))), ("`ab`₴", "ab"),
               ("1,2,", "1\n2\n")]
FAIL_TAILS = [("λx;†", ""), ("3ƛx;,", "⟨ "), ("3ƛx;…", "⟨ "), ("`(`\\ae", ""), ("¼", ""), ("5ƛx;₴", "⟨ "), ("λλx;†;†", "")]


def _failing_shard(cases):
    part = explore.Partial()
    for (ptext, pout), (ftext, fout) in cases:
        program = ptext + ftext
        part.count()
        part.nontriv()
        out, py_out, fd_out, exc, calls, texec = run_online(program, "", "", timeout=20.0)
        case = {"program": program, "tokens": [ptext, ftext], "inputs": "", "flags": ""}
        tags = {"kind": "failing program", "fails_with": ftext, "prints": ptext}
        part.outcome(("failing", ftext, bool(out[2])))
        if isinstance(exc, sandbox.CaseTimeout):
            part.cap("backstop hit: " + program)
            continue
        if py_out or fd_out:
            part.violation("online", case, "online mode wrote to the host's standard output", tags, "", (py_out or fd_out)[:80], size=len(program))
        elif exc is not None and not isinstance(exc, SystemExit):
            part.violation("online", case, "an exception escaped execute_vyxal in online mode", tags, "error record", type(exc).__name__, size=len(program))
        elif not out[2]:
            part.violation("online", case, "a failing program left the error record empty", tags, "a traceback in the error record",
                           {"output_record": out[1][-60:], "error_record": out[2]}, size=len(program))
        elif out[1] != pout + fout:
            part.violation("online", case, "text printed before the failure is missing from / differs in the online output record", tags,
                           (pout + fout)[-80:], out[1][-80:], size=len(program))
    part.section("failing_programs", cases=len(cases))
    return part.data()


def run(tier, seed):
    rep = Report(PROP, tier, seed, "exploration")
    quick = tier == "quick"
    explore.pmap(_failing_shard, explore.chunks([(a, b) for a in FAIL_PRINTS for b in FAIL_TAILS] + [(("", ""), ("3ƛx;", "⟨ "))], 16), rep, seed)
    explore.pmap(_ho_shard, explore.chunks(higher_order_programs(), 64), rep, seed)
    explore.pmap(_ho_shard, explore.chunks(all_element_programs(), 96), rep, seed)
    names = QUICK_TOKENS if quick else list(TOKENS)
    maxlen = 3 if quick else 3
    programs = [tuple(p) for n in range(1, maxlen + 1) for p in itertools.product(names, repeat=n)]
    if not quick:
        core = ["S1", "S3", "?", "E", "†", "Ė", "w", "list", "lam", ",", "err"]
        programs += [tuple(p) for p in itertools.product(core, repeat=4)]
    inputs_names = ["none", "expr", "list", "digit-expr"] if quick else list(INPUTS)
    flags = ["", "j"] if quick else FLAGS
    explore.pmap(_shard, [(c, inputs_names, flags) for c in explore.chunks(programs, 128)], rep, seed)
    # odd-but-valid literal inputs with every short program that reads / evaluates / prints input
    lit_progs = [tuple(p) for n in (1, 2) for p in itertools.product(["?", "E", "Ė", ",", "w", "…", "_"], repeat=n)
                 if tuple(p) != ("E", "E")]   # 2**(2**120) (bytes input b'x') is merely astronomically slow
    explore.pmap(_shard, [(c, LITERAL_INPUTS, ["", "j"]) for c in explore.chunks(lit_progs, 16)], rep, seed)
    rep.rule = ("all programs of <=%d tokens over %d symbols (3 tainted string literals, ? E † Ė : w range list lambda, every printing "
                "element , … ₴ ¨, ¨…, an error-raising element)%s x inputs %s x flags %s through the real "
                "execute_vyxal(code, flags+'e', inputs, out, online_mode=True). Observers: sys.addaudithook exec events whose code "
                "references a taint name, builtins.TAINT_n call recorder, fd-level capture of host stdout, out[1]/out[2]. "
                "Plus: 43 programs that print and then fail (6 printing prefixes x 7 ways of failing): printed text in the output record, traceback in the error record, nothing propagates but SystemExit. Plus: every function-taking element with a printing / evaluating lambda (both argument orders, 4 ways of forcing) and every key of the element table applied to 3 tainted strings in every argument position. Each (program, inputs, flags) is distinct." % (maxlen, len(names), "" if quick else " + all 4-token programs over 11 core symbols",
                                                                 inputs_names, flags))
    rep.sample({"program": render(("S1", "E", ",")), "inputs": INPUTS["expr"], "flags": ""})
    rep.sample({"program": render(("?", "†")), "inputs": INPUTS["list"], "flags": "j"})
    rep.sample({"program": render(("lam", "†", "Ė")), "inputs": "", "flags": ""})
    rep.assumptions = ["an `exec` audit event whose code object (recursively) has a TAINT_ name in co_names means user text ran as Python",
                       "flask_app.py itself is not exercised (flask is not installed); sympy string overloads (∆...) are outside the program grammar of the property"]
    return rep


def replay(art):
    c = art["case"]
    part = explore.Partial()
    inputs_name = [k for k, v in INPUTS.items() if v == c["inputs"]][0]
    check(part, tuple(c["tokens"]), inputs_name, c["flags"])
    return part.d["violations"] or None
