"""C10 - values are immutable: no element changes a value another reference can see.

(E) the element sweep with kept references to the arguments (structural snapshot before/after);
(S) explicit-state BFS over histories  <value> <copy-op> <element>*  on the real interpreter: after every
    transition the untouched reference must still denote the original value."""
from __future__ import annotations

from fractions import Fraction

from vmc.core import elemsweep as S
from vmc.core import explore, sandbox
from vmc.core.report import Report

PROP = "C10"


# ------------------------------------------------------------------ (E) kept references
def _sweep_shard(work):
    part = explore.Partial()
    for key, specs in work:
        if not specs:
            continue
        o = S.run_case(key, specs, timeout=2.0)
        part.count()
        if isinstance(o.exc, sandbox.CaseTimeout):
            part.skip("call did not return within the 2 s backstop (out of domain)")
            continue
        if o.exc is not None:
            part.skip("call raises (out of domain)")
            continue
        part.nontriv()
        for i, (spec, arg) in enumerate(zip(specs, o.args)):
            want = S.denote(spec)
            try:
                with sandbox.watchdog(2.0):
                    got = sandbox.pyval(arg, limit=64)
            except BaseException as e:  # noqa
                if isinstance(e, KeyboardInterrupt):
                    raise
                got = "reading the argument afterwards raises " + type(e).__name__
            part.outcome((key, S.kind_of(spec)))
            if got != want:
                part.violation("argument", {"element": key, "args": [S.spec_name(s) for s in specs], "position": i},
                               "element changed one of its arguments in place",
                               {"element": key, "arg_kind": S.kind_of(spec), "position": i},
                               want, got, size=len(specs) * 10 + len(str(specs)))
    return part.data()


# ------------------------------------------------------------------ (S) copy histories
VALUES = {
    "list": ("⟨1|2|3⟩", [1, 2, 3]),
    "nested": ("⟨⟨1⟩|⟨2|3⟩⟩", [[1], [2, 3]]),
    "lazy": ("3ɾ", [1, 2, 3]),
    "lazy_mapped": ("3ɾ›", [2, 3, 4]),
    # lazy lists that have already been looked at through another reference (the register): one item is memoised, the rest is not
    "lazy_peeked": ("3ɾ£¥h_¥", [1, 2, 3]),
    "lazy_mapped_peeked": ("4ɾ›£¥1i_¥", [2, 3, 4, 5]),
    "string": ("`ab`", "ab"),
    # an infinite list (carries the `infinite` flag; copies made by : / D do not): judged on its first 64 items
    "primes": ("Þp", [2, 3, 5, 7, 11, 13, 17, 19, 23, 29, 31, 37, 41, 43, 47, 53, 59, 61, 67, 71, 73, 79, 83, 89, 97, 101, 103, 107, 109, 113,
                      127, 131, 137, 139, 149, 151, 157, 163, 167, 173, 179, 181, 191, 193, 197, 199, 211, 223, 227, 229, 233, 239, 241, 251,
                      257, 263, 269, 271, 277, 281, 283, 293, 307, 311]),
}
INFINITE = {"primes"}
# elements that are meant to work on an infinite list (anything else would just diverge)
INF_TRANSITIONS = [("c(v,7)", "7 c "), ("c(v,13)", "13 c "), ("c(v,100)", "100 c "), ("h", "h "), ("i(v,3)", "3 i "), ("Ẏ(v,4)", "4 Ẏ "),
                   ("Ḣ", "Ḣ "), ("ȯ(v,2)", "2 ȯ "), ("›", "› "), ("d", "d "), ("+(v,1)", "1 + "), ("ḣ", "ḣ "), (":", ": "),
                   ("ẇ(v,2)", "2 ẇ "), ("l(v,2)", "2 l "), ("¦", "¦ "), ("U", "U "), ("ė", "ė "), ("p(v,0)", "0 p ")]
# the global array is a mutable container: a snapshot taken with ¾ must not follow later pushes / pops
GLOBAL_TRANSITIONS = [("⅛", "1 ⅛ "), ("¼", "¼ _ "), ("¾", "¾ _ "), ("⅛⅛", "2 ⅛ 3 ⅛ "), ("Þ¾", "Þ¾ ")]
# copy-op: (program text after the value, how to read the untouched reference, how to bring a copy to the top)
COPY_OPS = {
    ":": (":", "stack0", ""),          # [copy, original]: work on the top, bottom must survive
    "D": ("D", "stack0", ""),          # [original, copy, copy]
    "Ḃ": ("Ḃ", "stack0", ""),          # [copy, reversed]
    "→x←x": ("→x ←x", "var", ""),      # variable holds it, work on the fetched value
    "£¥": ("£¥", "register", ""),      # register holds it
    "⅛¾": ("⅛¾h", "global0", ""),      # global array holds it; ¾ gives a copy of the array, h its first item
    "D→x": ("D→x", "stack0+var", ""),  # [original, copy] on the stack and a copy in a variable; work on the top
    "⅛¾snapshot": ("⅛¾", "stack0", "wrapped"),  # the value goes into the global array; ¾ leaves a snapshot [value] on the stack
}
# side arguments pushed before an element so that it consumes only the value on top (+ these)
SIDE = {2: ["0"], 3: ["0", "9"]}


def transitions(tier):
    """(name, program text) for every element that takes >=1 argument, with fixed side arguments.
    Dyads get the side argument on either side."""
    tab = S.table()
    out = []
    from vmc.core import yamlread

    fun_keys = {e["key"] for e in yamlread.read() if any("fun" in sig for sig in e["overloads"])} | {"Ḟ"}
    for key, ar in tab.items():
        if ar < 1 or key in S.WHOLE_STACK or key in S.NONDETERMINISTIC or key in S.EXIT or key in ("Ė", "ß", "□", "?", "_", "£", "⅛", ",", "…", "₴", "¨,", "¨…"):
            continue
        if ar == 1:
            out.append((key, key + " "))
        elif ar == 2:
            out.append((key + "(v,0)", "0 " + key + " "))
            out.append((key + "(v,1)", "1 " + key + " "))
            out.append((key + "(0,v)", "0 $" + key + " "))
            out.append((key + "(v,⟨0|1⟩)", "⟨0|1⟩ " + key + " "))
            out.append((key + "(v,fn)", "λ›; " + key + " "))
            if key in fun_keys:
                out.append((key + "(v,fn)take", "λ+; " + key + " 4Ẏ "))  # force a few items of a lazily built result
        else:
            out.append((key + "(v,0,9)", "0 9 " + key + " "))
            out.append((key + "(v,1,⟨7⟩)", "1 ⟨7⟩ " + key + " "))
            out.append((key + "(v,0,fn)", "0 λ›; " + key + " "))
    # fixpoint / collect-while-unique of an ever-growing function diverge by definition
    return [t for t in out if t[0] not in ("Ẋ(v,fn)", "Ẋ(v,fn)take", "İ(v,fn)take", "İ(v,fn)")]


SUSPECTS = ["Ȧ", "¨M", "Ḟ", "Ṙ", "s", "U", "J", "p", "Ṫ", "Ḣ", "i", "ẇ", "Ẏ", "Þṁ", "•", "ṗ", "K", "ÞS", "¦", "¯", "f", "∩", "y",
            "Ǔ", "ǔ", "ṫ", "ḣ", "Ṁ", "⟇", "Y", "Z", "ȯ", "Ż", "İ", "ẋ", "L", "t", "h", "›", "ḃ", "∑", "G", "Ġ", "Ċ", "⇧", "ÞU", "Þr", "ÞR"]

_CODE = {}


def code_of(text):
    c = _CODE.get(text)
    if c is None:
        c = compile(sandbox.transpile(text), "<c10>", "exec")
        _CODE[text] = c
    return c


class St:
    pass


def build(hist):
    """hist = [value_name, copy_op_name, t1, t2, ...] (t = transition program text).  Fresh ctx/namespace."""
    vname, cname = hist[0], hist[1]
    st = St()
    st.hist = hist
    st.want = VALUES[vname][1]
    if COPY_OPS[cname][2] == "wrapped":
        st.want = [st.want]
    st.how = COPY_OPS[cname][1]
    ns = sandbox.base_namespace()
    ctx = sandbox.fresh_ctx()
    stack = []
    ctx.stacks.append(stack)
    ns["stack"], ns["ctx"] = stack, ctx
    st.ns, st.ctx, st.stack = ns, ctx, stack
    st.exc = None
    import random

    random.seed(0)
    import contextlib
    import io

    try:
        with sandbox.watchdog(1.0), contextlib.redirect_stdout(io.StringIO()):
            exec(code_of(VALUES[vname][0] + " " + COPY_OPS[cname][0] + " "), ns)
            for t in hist[2:]:
                exec(code_of(t), ns)
    except BaseException as e:  # noqa
        if isinstance(e, KeyboardInterrupt):
            raise
        st.exc = e
    return st


def untouched(st):
    """values of the reference(s) that no element was applied to"""
    out = []
    if "stack0" in st.how:
        out.append(st.stack[0] if st.stack else "stack emptied")
    if "var" in st.how:
        out.append(st.ns.get("VAR_x", "variable lost"))
    if st.how == "register":
        out.append(st.ctx.register)
    if st.how == "global0":
        out.append(st.ctx.global_array[0] if st.ctx.global_array else "global array emptied")
    return out


def read(v, limit=64):
    try:
        with sandbox.watchdog(2.0):
            return sandbox.pyval(v, limit=limit)
    except BaseException as e:  # noqa
        if isinstance(e, KeyboardInterrupt):
            raise
        return "reading raises " + type(e).__name__


def canon_state(st):
    from vyxal.LazyList import LazyList

    def lens(v, d=0):
        if isinstance(v, LazyList):
            return ("L", len(v.generated))
        if isinstance(v, list) and d < 3:
            return tuple(lens(x, d + 1) for x in v)
        return 0

    cache = tuple(lens(v) for v in st.stack)
    lim = 16 if st.hist[0] in INFINITE else 64
    return (st.hist[0], st.hist[1], repr(read(st.stack, lim)), repr(read(untouched(st), lim)), cache, st.exc is not None)


def _bfs_shard(args):
    vname, cname, depth, trans = args
    part = explore.Partial()
    tr = trans

    def enabled(st, hist):
        if st.exc is not None or len(st.stack) == 0 or len(st.stack) > 6:
            return []
        return [t[1] for t in tr]

    def check(hist, st):
        part.count()
        if st.exc is not None:
            part.skip("history raises (out of domain)")
            return
        inf = vname in INFINITE
        got = [read(v, 16 if inf else 64) for v in untouched(st)]
        part.outcome(repr(got)[:40])
        want = st.want[:16] if inf else st.want
        for g in got:
            if g != want:
                last = hist[-1].strip()
                part.violation("history", {"value": VALUES[vname][0], "copy_op": cname, "elements": [h.strip() for h in hist[2:]],
                                           "program": VALUES[vname][0] + " " + COPY_OPS[cname][0] + " " + "".join(hist[2:])},
                               "an untouched copy changed after an element ran on the other reference",
                               {"last": last.split()[-1] if last else "", "value": vname, "copy_op": cname},
                               want, g, size=len(hist) * 100 + len(last))
                return

    states, transitions_n, maxd, dedup = explore.bfs([vname, cname], enabled, build, canon_state, check, depth)
    part.section("bfs", states=states, transitions=transitions_n, dedup_hits=dedup)
    part.d["nontrivial_n"] += states
    return part.data()


def _hist_shard(args):
    """explicit two-step histories (no BFS): every prefix is checked too"""
    vname, cname, hists = args
    part = explore.Partial()
    inf = vname in INFINITE
    for h in hists:
        for k in range(1, len(h) + 1):
            hist = [vname, cname] + h[:k]
            st = build(hist)
            part.count()
            if st.exc is not None:
                part.skip("history raises (out of domain)")
                break
            want = st.want[:16] if inf else st.want
            got = [read(v, 16 if inf else 64) for v in untouched(st)]
            bad = [g for g in got if g != want]
            part.section("bfs", states=1, transitions=1)
            if bad:
                part.violation("history", {"value": VALUES[vname][0], "copy_op": cname, "elements": [x.strip() for x in h[:k]],
                                           "program": VALUES[vname][0] + " " + COPY_OPS[cname][0] + " " + "".join(h[:k])},
                               "an untouched copy changed after an element ran on the other reference",
                               {"last": h[k - 1].split()[-1], "value": vname, "copy_op": cname}, want, bad[0], size=k * 100)
                break
    return part.data()


def run(tier, seed):
    rep = Report(PROP, tier, seed, "model_checking")
    quick = tier == "quick"
    explore.pmap(_sweep_shard, S.shards(tier, 96), rep, seed)
    sweep_evals = rep.evaluations
    allt = transitions(tier)
    sus = [t for t in allt if t[0].split("(")[0] in SUSPECTS]
    shards = []
    hist_shards = []
    for v in VALUES:
        for c in COPY_OPS:
            if c == "⅛¾snapshot":
                if v not in INFINITE:
                    shards.append((v, c, 3, GLOBAL_TRANSITIONS))
                continue
            if v in INFINITE:
                if c == "Ḃ":
                    continue  # reversing an infinite list diverges by definition
                if quick:
                    shards.append((v, c, 1, INF_TRANSITIONS))
                    # membership tests / partial reads followed by a read (two steps), without the full square
                    pre = [t for t in INF_TRANSITIONS if t[0] in ("c(v,7)", "c(v,13)", "c(v,100)", "Ẏ(v,4)", "i(v,3)", "Ḣ")]
                    post = [t for t in INF_TRANSITIONS if t[0] in ("h", "i(v,3)", "Ẏ(v,4)", "c(v,13)")]
                    hist_shards.append((v, c, [[a[1], b[1]] for a in pre for b in post]))
                else:
                    shards.append((v, c, 2, INF_TRANSITIONS))
                continue
            # depth 1 over every element; deeper over the mutation-suspect alphabet
            shards.append((v, c, 1, allt))
            core = [t for t in sus if t[0].split("(")[0] in SUSPECTS[:16]][:36]
            if quick:
                shards.append((v, c, 2, core))
            else:
                shards.append((v, c, 2, sus))     # every pair of mutation-suspect transitions
                shards.append((v, c, 3, core[:24]))  # triples over the core
    explore.pmap(_bfs_shard, shards, rep, seed)
    explore.pmap(_hist_shard, hist_shards, rep, seed)
    b = rep.sections.get("bfs", {})
    rep.extra.update({
        "states": int(b.get("states", 1)) or 1,
        "transitions": int(b.get("transitions", 1)) or 1,
        "traces_validated_against_impl": int(b.get("transitions", 0)),
        "dedup_hits": int(b.get("dedup_hits", 0)),
        "sweep_evaluations": sweep_evals,
        "transition_alphabet": len(allt),
        "suspect_alphabet": len(sus),
        "allow_skips": True,
        "explanation": "every transition is executed by the real lexer/parser/transpiler/exec on a fresh Context; the model is the "
                       "constant original value, compared through the untouched reference after every transition",
    })
    rep.rule = ("(E) every element x every argument tuple (as C09) with kept references: pyval(arg) after == value before. "
                "(S) BFS over histories <value in %s> <copy-op in %s> <elements>: depth 1 over all %d element transitions, depth %d "
                "over %d mutation-suspect transitions; dedup on (stack values, untouched values, lazy cache lengths)."
                % (list(VALUES), list(COPY_OPS), len(allt), 2 if quick else 3, len(sus)))
    rep.sample({"program": "⟨1|2|3⟩ : 0 9 Ȧ", "untouched": "stack[0]", "expected": [1, 2, 3]})
    rep.sample({"program": "3ɾ →x ←x Ṙ", "untouched": "VAR_x", "expected": [1, 2, 3]})
    rep.sample({"element": "s", "args": ["[1, 2, 3]"], "kept reference": "args[0]"})
    rep.assumptions = ["structural snapshot: lazy lists are read through the kept reference up to 64 items",
                       "histories that raise are out of domain"]
    return rep


def replay(art):
    c = art["case"]
    if "program" in c:
        hist = [k for k, v in VALUES.items() if v[0] == c["value"]][:1] + [c["copy_op"]] + [e + " " for e in c["elements"]]
        st = build(hist)
        got = [read(v) for v in untouched(st)]
        return None if all(g == st.want for g in got) else got
    tab = S.table()
    work = [(c["element"], specs) for specs in S.tuples_for(max(tab[c["element"]], 0), "thorough")
            if [S.spec_name(s) for s in specs] == c["args"]]
    return _sweep_shard(work)["violations"] or None
