"""C02 - every well-formed program transpiles to Python that compiles. (E), exhaustive. Nothing is executed."""
from __future__ import annotations

import itertools

from vmc.core import explore, progs, sandbox
from vmc.core.report import Report

PROP = "C02"


def try_compile(program, dict_compress=True):
    """None if ok, else (stage, exception type, message)"""
    try:
        code = sandbox.transpile(program, dict_compress)
    except RecursionError as e:
        return ("transpile", "RecursionError", "")
    except Exception as e:  # noqa
        return ("transpile", type(e).__name__, str(e)[:100])
    try:
        compile(code, "<p>", "exec")
    except SyntaxError as e:
        return ("compile", type(e).__name__, "%s (line %s: %s)" % (e.msg, e.lineno, (e.text or "").strip()[:60]))
    except Exception as e:  # noqa
        return ("compile", type(e).__name__, str(e)[:100])
    return None


def all_keys():
    sandbox.setup()
    import vyxal.elements as E

    return list(E.elements) + list(progs.MODIFIER_ARITY) + ["X", "x"] + noop_tokens()


_NOOPS = []


def _noops():
    if not _NOOPS:
        _NOOPS.append(set(noop_tokens()))   # on the pinned tree: newline, space and the digraph prefixes ∆ ø Þ ¨ k
    return _NOOPS[0]


def noop_tokens():
    """code-page characters that are valid tokens but do nothing (line break, space, a digraph prefix that is not followed by a
    second character, characters without an element): a branch may consist of nothing else"""
    sandbox.setup()
    import vyxal.elements as E
    import vyxal.encoding as enc
    from vyxal.lexer import Token, TokenType
    from vyxal.parse import CLOSING_CHARACTERS, OPENING_CHARACTERS

    out = []
    for c in enc.codepage:
        if c in E.elements or c in progs.MODIFIER_ARITY or c in OPENING_CHARACTERS or c in CLOSING_CHARACTERS or c in "Xx|":
            continue
        try:
            toks = sandbox.tokenise(c + "|")
        except Exception:  # noqa
            continue
        if toks and toks[0] == Token(TokenType.GENERAL, c):
            out.append(c)
    return out


ESCAPE_ALPHABET = ["\\", "x", "u", "U", "N", "{", "}", "0", "4", "7", "8", "a", "n", '"', "'", "\n", " "]
ESCAPE_FAMILY = ["\\x4", "\\x41", "\\x4g", "\\u004", "\\u0041", "\\ud800", "\\U0000004", "\\U00000041", "\\U00110000", "\\U0010ffff",
                 "\\N{DIGIT ONE}", "\\N{NO SUCH NAME}", "\\N{", "\\N}", "\\N{}", "\\N{DIGIT ONE", "a\\x", "\\\\x", "\\\\\\x", "\\x\\x41", "\\777", "\\400"]


def literal_texts(deep=False):
    """every literal token kind with every code-page character as payload (a literal is a valid token in every position too)"""
    import vyxal.encoding as enc

    out = []
    for c in enc.codepage:
        out.append("\\" + c + " ")                                  # character literal
        body = {"`": "\\`", "\\": "\\\\"}.get(c, c)
        out.append("`" + body + "` ")                                 # one-character string
        out.append("‛" + c + "a ")                                    # two-character strings
        out.append("‛a" + c + " ")
        out.append("⁺" + c + " ")                                     # code-page number
        if c != "«":
            out.append("«" + c + "« ")
        if c != "»":
            out.append("»" + c + "» ")
    # strings as a programmer types them: a backslash followed by anything (the lowering passes Python escapes through, so every
    # backslash sequence - complete, truncated or unknown - must still give a valid Python literal)
    for n in (2, 3):
        for pl in itertools.product(ESCAPE_ALPHABET, repeat=n):
            if n == 3 and not deep and pl[0] != "\\":
                continue
            out.append("`" + "".join(pl) + "` ")
            if n == 2:
                out.append("‛" + "".join(pl) + " ")
    out += ["`%s` " % t for t in ESCAPE_FAMILY]
    out += ["1.5 ", ". ", "5. ", ".5 ", "0 ", "00 ", "1°2 ", "° ", "1° ", "°2 ", "→a ", "←a ", "→ ", "← ", "→_a ", "←_a ", "#c\n", "`a\\nb` ", "`` "]
    return out


def _ctx_shard(args):
    keys, outer, inner, deeper = args
    part = explore.Partial()
    for key in keys:
        kt = progs.key_text(key)
        noop = key in _noops()
        for on, o in outer:
            for inn, it in inner:
                if noop and (on[:1] in progs.MODIFIER_ARITY or inn[:1] in progs.MODIFIER_ARITY):
                    continue  # a no-op token is not an element: it cannot be a modifier's operand (like a comment)
                chains = [(on, inn)]
                p = progs.fill(o, progs.fill(it, kt))
                part.count()
                bad = try_compile(p)
                part.outcome((on, inn, bad is None))
                if bad:
                    msg = bad[2].split("(")[0].strip()
                    part.violation("context", {"program": p, "key": key, "contexts": [on, inn]},
                                   "well-formed program does not %s: %s %s" % (bad[0], bad[1], msg),
                                   {"key": key if key in ("X", "x") or bad[0] == "compile" and "line 1:" in bad[2] and on == "top" and inn == "top" else key,
                                    "innermost": inn, "outer": on, "stage": bad[0]},
                                   "transpiles and compiles", "%s: %s %s" % bad, size=len(p))
        part.nontriv()
    return part.data()


def _lit_shard(args):
    lits, ctxs = args
    part = explore.Partial()
    for lit in lits:
        for cn, ct in ctxs:
            if lit.startswith("#") and cn in progs.MODIFIER_ARITY or lit.startswith("#") and cn[:1] in progs.MODIFIER_ARITY:
                continue  # a comment is not an element: it cannot be a modifier's operand
            p = progs.fill(ct, lit)
            part.count(2)
            bad = try_compile(p) or try_compile(p, False)   # with and without dictionary compression (flag D)
            part.outcome((cn, bad is None))
            if bad:
                kind = lit[0] if lit[0] in "\\`‛⁺«»→←#" else "number"
                msg = bad[2].split("(")[0].strip()
                part.violation("literal", {"program": p, "literal": lit, "contexts": [cn]},
                               "well-formed program does not %s: %s %s" % (bad[0], bad[1], msg),
                               {"key": "literal " + kind, "innermost": cn, "outer": "-", "stage": bad[0], "payload": lit.strip()[-2:]},
                               "transpiles and compiles", "%s: %s %s" % bad, size=len(p))
        part.nontriv()
    return part.data()


def name_programs():
    """names built from every code-page character that the documented name syntax (\\w+, Structures.md) accepts, at every
    position that takes a name (the transpiler must reduce them to valid Python identifiers)"""
    import re

    import vyxal.encoding as enc

    out = []
    from vyxal.lexer import Token, TokenType
    from vyxal.parse import CLOSING_CHARACTERS, OPENING_CHARACTERS

    tokenise = sandbox.tokenise

    for c in enc.codepage:
        if not re.match(r"\w", c):
            continue
        if c in OPENING_CHARACTERS or c in CLOSING_CHARACTERS or tokenise(c + "a") != [Token(TokenType.GENERAL, c), Token(TokenType.GENERAL, "a")]:
            continue  # structure syntax / digraph prefix / literal syntax: not a name character
        for nm in ("a" + c, c + "a", c):
            out += ["@%s|1;" % nm, "@%s|1;@%s;" % (nm, nm), "@%s;" % nm, "(%s|1)" % nm, "@f:%s|1;" % nm, "@f:a:%s|1;" % nm, "@f:%s:2|1;" % nm,
                    "λ@%s|1;;" % nm, "[(%s|1)]" % nm]
    # numbers where a number is expected (parameter counts, lambda arities): every digit string of length <= 3 over 0 1 7 - the
    # text of the program is not necessarily a canonical Python literal (leading zeros)
    for n in (1, 2, 3):
        for d in itertools.product("017", repeat=n):
            num = "".join(d)
            out += ["@f:%s|1;" % num, "@f:%s|1;3 4 5@f;" % num, "@f:a:%s|1;" % num, "@f:%s:a|1;" % num, "@f:%s:%s|1;" % (num, num),
                    "λ%s|1;" % num, "3 4 5λ%s|1;†" % num, "(λ%s|+;)" % num]
    return out


def _name_shard(progs_):
    part = explore.Partial()
    for p in progs_:
        part.count()
        bad = try_compile(p)
        part.outcome(bad is None)
        if bad and bad[0] == "transpile" and bad[1] in ("ValueError", "AssertionError"):
            part.skip("the transpiler refuses the program (no code returned)")
            continue
        if bad:
            msg = bad[2].split("(")[0].strip()
            part.violation("name", {"program": p}, "well-formed program does not %s: %s %s" % (bad[0], bad[1], msg),
                           {"key": "name", "innermost": p[:2], "outer": "-", "stage": bad[0]}, "transpiles and compiles", "%s: %s %s" % bad, size=len(p))
        part.nontriv()
    return part.data()


def _deep_shard(args):
    """representative keys nested to depth 3 and 4"""
    keys, ctxs, depth = args
    part = explore.Partial()
    for key in keys:
        kt = progs.key_text(key)
        for chain in itertools.product(ctxs, repeat=depth):
            p = kt
            for name, t in reversed(chain):
                p = progs.fill(t, p)
            part.count()
            bad = try_compile(p)
            if bad:
                msg = bad[2].split("(")[0].strip()
                part.violation("context", {"program": p, "key": key, "contexts": [c[0] for c in chain]},
                               "well-formed program does not %s: %s %s" % (bad[0], bad[1], msg),
                               {"key": key, "innermost": chain[-1][0], "outer": chain[-2][0], "stage": bad[0]},
                               "transpiles and compiles", "%s: %s %s" % bad, size=len(p))
        part.nontriv()
    return part.data()


def _raw_shard(args):
    firsts, alphabet, maxlen = args
    part = explore.Partial()
    accepted = 0
    for f in firsts:
        for n in range(0, maxlen):
            for rest in itertools.product(alphabet, repeat=n):
                s = f + "".join(rest)
                part.count()
                if not progs.well_formed(s):
                    continue
                accepted += 1
                bad = try_compile(s)
                part.outcome(bad is None)
                if bad:
                    msg = bad[2].split("(")[0].strip()
                    part.violation("raw", {"program": s}, "well-formed program does not %s: %s %s" % (bad[0], bad[1], msg),
                                   {"stage": bad[0], "symbols": "".join(sorted(set(s)))},
                                   "transpiles and compiles", "%s: %s %s" % bad, size=len(s))
    part.d["nontrivial_n"] += accepted
    part.section("raw_strings", accepted=accepted)
    return part.data()


def template_classes():
    """One representative key per template shape class (template text with identifiers/constants abstracted)."""
    import re

    import vyxal.elements as E

    classes = {}
    for k, (tmpl, ar) in E.elements.items():
        shape = re.sub(r"\"[^\"]*\"|'[^']*'", "S", tmpl)
        shape = re.sub(r"\b[a-z_][a-z_0-9]*\(", "F(", shape)
        shape = re.sub(r"\d+", "N", shape)
        classes.setdefault((shape.count("\n"), shape), k)
    return list(classes.values())


def run(tier, seed):
    rep = Report(PROP, tier, seed, "exploration")
    quick = tier == "quick"
    keys = all_keys()
    ctxs = progs.CONTEXTS
    inner = ctxs
    outer = ctxs if not quick else [c for c in ctxs if c[0] in (
        "top", "if-else", "if-elif-cond", "for", "while-cond", "while-body", "fn", "lambda", "list-1",
        "v", "ß", "₌B", "after-R", "after-⁽", "after-‡")]
    explore.pmap(_ctx_shard, [(c, outer, inner, None) for c in explore.chunks(keys, 64)], rep, seed)
    lits = literal_texts(deep=not quick)
    lit_ctx = [c for c in ctxs if c[0] in ("top", "if-else", "for", "while-cond", "fn", "lambda", "list-1", "v", "₌B", "after-R")]
    explore.pmap(_lit_shard, [(c, lit_ctx) for c in explore.chunks(lits, 64)], rep, seed)
    explore.pmap(_name_shard, explore.chunks(name_programs(), 32), rep, seed)
    reps = template_classes() + list(progs.MODIFIER_ARITY) + ["X", "x"]
    core = [c for c in ctxs if c[0] in ("if-else", "if-elif-cond", "for", "while-cond", "while-body", "fn", "lambda", "map",
                                        "list-1", "v", "ß", "₌B", "≬B", "after-R", "after-†", "after-⁽", "after-≬")]
    core3 = core if not quick else [c for c in core if c[0] in ("if-else", "for", "while-cond", "while-body", "fn", "lambda", "list-1", "v", "ß", "after-R")]
    explore.pmap(_deep_shard, [(c, core3, 3) for c in explore.chunks(reps, 32)], rep, seed)
    if not quick:
        core4 = [c for c in core if c[0] in ("if-else", "for", "while-cond", "while-body", "fn", "lambda", "list-1", "v", "ß", "after-R")]
        explore.pmap(_deep_shard, [(c, core4, 4) for c in explore.chunks(["X", "x", "+", "R", "†", "ġ", "n", "v", "ß", "≬", ",", "¨…"], 12)], rep, seed)
    alphabet = list("[({@λƛ⟨|;])}⟩f1")
    if not quick:
        alphabet += list("Xxv₌≬")
    maxlen = 4 if quick else 5
    explore.pmap(_raw_shard, [([a], alphabet, maxlen) for a in alphabet], rep, seed)
    rep.extra["contexts"] = [c[0] + " " + c[1] for c in ctxs]
    rep.extra["template_shape_classes"] = len(reps)
    rep.extra["raw_alphabet"] = "".join(alphabet)
    rep.rule = ("(a) every key of the element table + 11 modifiers (with operands) + X + x (%d keys) in %d outer x %d inner position "
                "contexts; one representative of each of %d template shape classes nested to depth 3%s; (b) all strings of length <=%d "
                "over the %d-symbol alphabet %s that the independent recogniser accepts (balanced or end-truncated, modifiers with "
                "operands, integer lambda arity, names where names are required). Oracle: transpile() returns and compile() succeeds. "
                "distinct_nontrivial = keys + accepted raw strings." % (
                    len(keys), len(outer), len(inner), len(reps), "" if quick else " (depth 4 for 12 keys)", maxlen, len(alphabet),
                    "".join(alphabet)))
    rep.sample({"program": progs.fill("[+|{}|+]", progs.fill("ß{}", progs.key_text("¨…")))})
    rep.sample({"program": progs.fill("({})", progs.fill("⟨{}|+⟩", progs.key_text("X")))})
    rep.sample({"program": "λ1|(f|[f", "well_formed": progs.well_formed("λ1|(f|[f")})
    rep.assumptions = ["the recogniser in vmc/core/progs.py defines 'well-formed' for raw strings", "compile(code, '<p>', 'exec')"]
    return rep


def replay(art):
    return try_compile(art["case"]["program"])
