"""C07 - rational arithmetic is exact and stays inside the number types. (E), exhaustive."""
from __future__ import annotations

import itertools
from fractions import Fraction

from vmc.core import explore, sandbox
from vmc.core.report import Report

PROP = "C07"
OPS = ["+", "-", "*", "/", "%", "ḭ"]
NAMES = {"+": "add", "-": "subtract", "*": "multiply", "/": "divide", "%": "modulo", "ḭ": "integer_divide"}


def ref(op, a: Fraction, b: Fraction):
    if op == "+":
        return a + b
    if op == "-":
        return a - b
    if op == "*":
        return a * b
    if op == "/":
        return Fraction(0) if b == 0 else a / b
    if op == "ḭ":
        return Fraction(0) if b == 0 else Fraction(a // b)
    if op == "%":
        return None if b == 0 else a % b  # modulo by zero: unspecified by the property
    raise ValueError(op)


def to_repr(f: Fraction, rep: str):
    import sympy

    if rep == "py" and f.denominator == 1:
        return int(f)
    return sympy.Rational(f.numerator, f.denominator)


def exact(v):
    import sympy

    if isinstance(v, bool):
        return None
    if isinstance(v, int):
        return Fraction(v)
    if isinstance(v, sympy.Rational):
        return Fraction(int(v.p), int(v.q))
    return None


def domain_small():
    vals = sorted({Fraction(p, q) for p in range(-12, 13) for q in range(1, 7)})
    return vals


def sign_class(a, b):
    def s(x):
        return "0" if x == 0 else ("-" if x < 0 else "+")

    def k(x):
        return "int" if x.denominator == 1 else "frac"

    return "%s%s,%s%s" % (s(a), k(a), s(b), k(b))


def check_pair(part, op, a, b, rep, section):
    import vyxal.elements as E

    want = ref(op, a, b)
    if want is None:
        part.skip("modulo by zero (unspecified)")
        return
    fn = getattr(E, NAMES[op])
    x, y = to_repr(a, rep), to_repr(b, rep)
    part.count()
    try:
        with sandbox.watchdog(20):
            got = fn(x, y, sandbox.fresh_ctx())
        f = exact(got)
        obs = str(got) if f is not None else "%s: %s" % (type(got).__name__, str(got)[:50])
    except BaseException as e:  # noqa
        if isinstance(e, KeyboardInterrupt):
            raise
        f, obs = None, "raises " + type(e).__name__
    part.outcome((op, sign_class(a, b), str(want)[:6]))
    if f != want:
        what = "not an exact rational" if f is None else "wrong value"
        part.violation("pair", {"op": op, "a": str(a), "b": str(b), "repr": rep, "section": section},
                       "%s: %s" % (NAMES[op], what), {"op": op, "repr": rep, "what": what, "signs": sign_class(a, b)},
                       str(want), obs, size=abs(a.numerator) + abs(b.numerator) + a.denominator + b.denominator)


def _pair_shard(args):
    pairs, section = args
    part = explore.Partial()
    for (a, b) in pairs:
        for op in OPS:
            for rep in ("py", "sympy"):
                check_pair(part, op, a, b, rep, section)
        part.nontriv()
    return part.data()


# ---------------------------------------------------------------- expression trees as programs
LEAVES = [Fraction(0), Fraction(1), Fraction(-1), Fraction(2), Fraction(1, 2), Fraction(-3, 2), Fraction(5, 3)]
TREE_OPS = ["+", "-", "*", "/"]


def lit(f: Fraction) -> str:
    """Vyxal text pushing f using integer literals only (so C05's decimal lowering is not involved)."""
    n, d = f.numerator, f.denominator
    s = str(abs(n))
    if n < 0:
        s += "N"
    if d != 1:
        s += " %d/" % d
    return s


def trees(depth):
    if depth == 0:
        for l in LEAVES:
            yield ("leaf", l)
        return
    sub = list(trees(depth - 1))
    yield from sub
    if depth >= 1:
        for op in TREE_OPS:
            for l in sub:
                for r in sub:
                    if depth > 1 and l[0] == "leaf" and r[0] == "leaf":
                        continue  # already produced at depth-1
                    yield (op, l, r)


def render(t):
    if t[0] == "leaf":
        return lit(t[1])
    return render(t[1]) + " " + render(t[2]) + t[0]


def evalt(t):
    if t[0] == "leaf":
        return t[1]
    return ref(t[0], evalt(t[1]), evalt(t[2]))


def tsize(t):
    return 1 if t[0] == "leaf" else 1 + tsize(t[1]) + tsize(t[2])


def _tree_shard(ts):
    part = explore.Partial()
    for t in ts:
        prog = render(t)
        want = evalt(t)
        part.count()
        part.nontriv()
        r = sandbox.run_program(prog, timeout=20)
        if r.exc is not None:
            f, obs = None, "raises " + type(r.exc).__name__
        elif len(r.stack) != 1:
            f, obs = None, "stack height %d" % len(r.stack)
        else:
            f = exact(r.stack[0])
            obs = str(r.stack[0])[:60] if f is not None else "%s: %s" % (type(r.stack[0]).__name__, str(r.stack[0])[:50])
        part.outcome(str(want))
        if f != want:
            part.violation("tree", {"program": prog}, "expression tree: result differs from Fraction arithmetic",
                           {"root": t[0], "what": "not an exact rational" if f is None else "wrong value"},
                           str(want), obs, size=100 + tsize(t))
    return part.data()


BIG_LEAVES = [10 ** 6, 999983, 2 ** 31, 10 ** 9 + 7]


def _bigchain_shard(cases):
    """left-deep operator chains whose leaves are LARGE integers, delivered as inputs (so that literal lowering is not involved):
    `? ? op ? op ...`; intermediate denominators grow past 10^15 / 2^53 / 2^64"""
    part = explore.Partial()
    for ops_, leaves in cases:
        prog = "?" + "".join("?" + o for o in ops_)
        want = Fraction(leaves[0])
        for o, v in zip(ops_, leaves[1:]):
            want = ref(o, want, Fraction(v))
        part.count()
        part.nontriv()
        r = sandbox.run_program(prog, inputs=list(leaves), timeout=20)
        if r.exc is not None:
            f, obs = None, "raises " + type(r.exc).__name__
        elif len(r.stack) != 1:
            f, obs = None, "stack height %d" % len(r.stack)
        else:
            f = exact(r.stack[0])
            obs = str(r.stack[0])[:80] if f is not None else "%s: %s" % (type(r.stack[0]).__name__, str(r.stack[0])[:50])
        part.outcome(("bigchain", ops_, want.denominator.bit_length() // 8))
        if f != want:
            part.violation("bigchain", {"program": prog, "inputs": list(leaves)}, "operator chain over large integers: result differs from Fraction arithmetic",
                           {"ops": ops_, "what": "not an exact rational" if f is None else "wrong value"}, str(want), obs,
                           size=200 + len(ops_))
    return part.data()


def shapes3():
    """the five binary tree shapes with three operators, as postfix templates over leaves a b c d and operators 1 2 3"""
    return ["ab1c2d3", "ab1cd23", "abc12d3", "abc1d23", "abcd123"]


def _baltree_shard(cases):
    part = explore.Partial()
    for shape, ops_, lv in cases:
        prog, st, li = "", [], 0
        for ch in shape:
            if ch in "abcd":
                prog += "?"
                st.append(Fraction(lv[li]))
                li += 1
            else:
                o = ops_[int(ch) - 1]
                prog += o
                b = st.pop()
                a = st.pop()
                st.append(ref(o, a, b))
        want = st[0]
        part.count()
        part.nontriv()
        r = sandbox.run_program(prog, inputs=list(lv), timeout=20)
        if r.exc is not None:
            f, obs = None, "raises " + type(r.exc).__name__
        elif len(r.stack) != 1:
            f, obs = None, "stack height %d" % len(r.stack)
        else:
            f = exact(r.stack[0])
            obs = str(r.stack[0])[:80] if f is not None else "%s: %s" % (type(r.stack[0]).__name__, str(r.stack[0])[:50])
        part.outcome(("tree3", shape, ops_, want == 0))
        if f != want:
            part.violation("bigchain", {"program": prog, "inputs": list(lv)}, "operator tree over large integers: result differs from Fraction arithmetic",
                           {"ops": ops_, "shape": shape, "what": "not an exact rational" if f is None else "wrong value"}, str(want), obs, size=300)
    return part.data()


def large_family():
    ps = [10 ** 6, 10 ** 6 - 1, 999983, 2 ** 19, -465082, 465082, 123456, -999999]
    qs = [3, 7, 1932, 9973, 10 ** 4, -7, 6]
    out = []
    for p in ps:
        for q in qs:
            out.append((Fraction(p), Fraction(q)))
            out.append((Fraction(p, 7), Fraction(q, 3)))
            out.append((Fraction(q), Fraction(p)))
    return out


def run(tier, seed):
    rep = Report(PROP, tier, seed, "exploration")
    vals = domain_small()
    pairs = list(itertools.product(vals, vals))
    explore.pmap(_pair_shard, [(c, "small") for c in explore.chunks(pairs, 64)], rep, seed)
    fam = large_family()
    explore.pmap(_pair_shard, [(c, "large_family") for c in explore.chunks(fam, 16)], rep, seed)
    depth = 1 if tier == "quick" else 2
    ts = list(trees(depth))
    if tier == "quick":
        # depth-2 trees whose right operand is a leaf (left-deep chains a b op c op)
        sub = list(trees(1))
        ts += [(op, l, r) for op in TREE_OPS for l in sub if l[0] != "leaf" for r in sub if r[0] == "leaf"]
    # deep but narrow: left-deep and right-deep chains of up to 4 [5] operators over 4 leaves (depth 4-5 trees, exhaustively)
    cl = [Fraction(1, 2), Fraction(-3, 2), Fraction(5, 3), Fraction(2)]
    maxops = 3 if tier == "quick" else 5
    chains = []
    for k in range(3, maxops + 1):
        for ops_ in itertools.product(TREE_OPS, repeat=k):
            for lv in itertools.product(cl, repeat=k + 1) if k <= 3 else itertools.product(cl[:3], repeat=k + 1):
                left = ("leaf", lv[0])
                for o, v in zip(ops_, lv[1:]):
                    left = (o, left, ("leaf", v))
                chains.append(left)
                right = ("leaf", lv[-1])
                for o, v in zip(reversed(ops_), reversed(lv[:-1])):
                    right = (o, ("leaf", v), right)
                chains.append(right)
    ts = ts + chains
    explore.pmap(_tree_shard, explore.chunks(ts, 64), rep, seed)
    bl = BIG_LEAVES[:3] if tier == "quick" else BIG_LEAVES
    big = [("".join(o), lv) for k in (2, 3) for o in itertools.product(TREE_OPS, repeat=k) for lv in itertools.product(bl, repeat=k + 1)]
    big += [("".join(o), lv) for o in itertools.product("/*", repeat=4) for lv in itertools.product(BIG_LEAVES[:3], repeat=5)]
    explore.pmap(_bigchain_shard, explore.chunks(big, 64), rep, seed)
    # ... and all five tree shapes with three operators (e.g. x / ((a / b) / c)): here the right operand - the divisor - is itself computed and can be tiny (1/10^12)
    # or huge; leaves 1, 10^6, 999983 delivered as inputs
    tl = [1, 10 ** 6, 999983]
    bal = [(sh, o1 + o2 + o3, lv) for sh in shapes3() for o1 in "/*-" for o2 in "/*-" for o3 in "/*-" for lv in itertools.product(tl, repeat=4)]
    explore.pmap(_baltree_shard, explore.chunks(bal, 32), rep, seed)
    rep.section("sizes", small_pairs=len(pairs), large_pairs=len(fam), trees=len(ts))
    rep.rule = ("all ordered pairs over {p/q: |p|<=12, q<=6} (%d values) x 6 operators x 2 representations (Python int where "
                "integral / sympy); a structured large family; all expression trees over + - * / with 7 leaves up to depth %d%s "
                "run as Vyxal programs; plus all left-deep and right-deep operator chains of 3..%d operators over 4 [3] leaves; plus all left-deep chains of 2-3 operators (and 4 over / *) whose leaves are large integers (10^6, 999983, 2^31 [10^9+7]) delivered as inputs, and all five tree shapes with three operators from / * - over the leaves 1, 10^6, 999983 (computed divisors as small as 10^-12). distinct_nontrivial counts distinct operand pairs and distinct trees." % (
                    len(vals), depth, " plus left-deep depth-2 chains" if tier == "quick" else "", maxops))
    import random

    rnd = random.Random(seed)
    a, b = rnd.choice(pairs)
    rep.sample({"op": "/", "a": str(a), "b": str(b), "expected": str(ref("/", a, b))})
    rep.sample({"program": render(rnd.choice(ts))})
    rep.sample({"program": render(("*", ("/", ("leaf", Fraction(5, 3)), ("leaf", Fraction(-3, 2))), ("leaf", Fraction(-3, 2))))})
    rep.assumptions = ["fractions.Fraction is the reference; modulo by zero is not judged"]
    return rep


def replay(art):
    c = art["case"]
    if "inputs" in c:
        r = sandbox.run_program(c["program"], inputs=c["inputs"])
        got = None if r.exc or len(r.stack) != 1 else exact(r.stack[0])
        return None if str(got) == art["expected"] else str(r.stack if not r.exc else r.exc)
    if "program" in c:
        r = sandbox.run_program(c["program"])
        got = None if r.exc or len(r.stack) != 1 else exact(r.stack[0])
        return None if str(got) == art["expected"] else str(r.stack if not r.exc else r.exc)
    part = explore.Partial()
    check_pair(part, c["op"], Fraction(c["a"]), Fraction(c["b"]), c["repr"], "replay")
    return part.d["violations"] or None
