"""C09 - an element touches only the stack entries it consumes. (E), exhaustive over the element table."""
from __future__ import annotations

import itertools

from vmc.core import elemsweep as S
from vmc.core import explore, sandbox
from vmc.core.report import Report

PROP = "C09"


def prefix_verdict(prefix, snapshot, stack, n_prefix=3):
    """None if the prefix survived, else a short description."""
    if len(stack) < n_prefix:
        return "popped below its arguments: %d entries left under a %d-entry prefix" % (len(stack), n_prefix)
    for i in range(n_prefix):
        if stack[i] is not prefix[i]:
            return "entry %d below the arguments was replaced" % i
    if prefix[:len(snapshot)] != snapshot:
        return "a value below the arguments was mutated"
    return None


def _elem_shard(work):
    part = explore.Partial()
    tab = S.table()
    for key, specs in work:
        o = S.run_case(key, specs, timeout=2.0)
        part.count()
        if isinstance(o.exc, sandbox.CaseTimeout):
            part.skip("call did not return within the 2 s backstop (out of domain, listed in sections.nonreturning)")
            part.section("nonreturning", **{"%s %s" % (key, [S.spec_name(s) for s in specs]): 1})
            continue
        if o.exc is not None:
            part.skip("call raises (out of domain)")
            continue
        part.nontriv()
        part.outcome((key, len(o.stack)))
        v = prefix_verdict(o.prefix + o.aliases, o.prefix_snapshot, o.stack, n_prefix=3 + len(o.aliases))
        if v is None and o.alias_specs:
            # an entry below the arguments that is THE SAME OBJECT as an argument (a not-yet-evaluated duplicate, a variable ...)
            for i, (sp, obj) in enumerate(zip(o.alias_specs, o.aliases)):
                try:
                    with sandbox.watchdog(2.0):
                        now = sandbox.pyval(obj, limit=64)
                except BaseException as e:  # noqa
                    if isinstance(e, KeyboardInterrupt):
                        raise
                    now = "reading raises " + type(e).__name__
                if now != S.denote(sp):
                    v = "a value below the arguments was mutated through an alias of argument %d" % i
                    break
        prints_function = key in (",", "…", "₴", "¨,", "¨…") and specs and S.kind_of(specs[-1]) == "fn"   # printing a function CALLS it
        if v and (key in S.WHOLE_STACK or prints_function or (key in S.RUNS_PROGRAM_TEXT and isinstance(specs[-1], str))):
            # documented whole-stack operations may move/remove prefix entries but must not corrupt their values
            if o.prefix != o.prefix_snapshot:
                v = "whole-stack operation mutated a value"
            else:
                v = None
        if v:
            part.violation("element", {"element": key, "arity": tab[key], "args": [S.spec_name(s) for s in specs]},
                           "element reaches below its arguments: " + v.split(":")[0],
                           {"element": key, "arg_kinds": ",".join(S.kind_of(s) for s in specs)},
                           "prefix [[7,[8]],'S',7] intact", v, size=len(specs) * 10 + len(str(specs)))
    return part.data()


MONADIC = list("v&~ßƒɖ⁽")
DYADIC = list("₌₍‡")


NESTED_OUTER = ["v", "&", "~", "ß"]
NESTED_INNER = ["ƒ", "ɖ", "v", "&", "~"]
NESTED_ELEMS = ["+", "d", "*", "N", "J"]


def nested_modifier_programs():
    """a modifier whose operand is itself a modified element: the operand is "anything else" for the outer modifier, i.e. a
    function of ONE argument (Transpilation.md), whatever the innermost element's arity is"""
    out = []
    for o in NESTED_OUTER:
        for i in NESTED_INNER:
            for e in NESTED_ELEMS:
                out.append((o + i + e + " ", o, "<nested %s%s>" % (i, e)))
    return out


def modifier_programs(keys):
    progs = []
    for e in keys:
        for m in MONADIC:
            progs.append((m + e + " ", m, e))
        for m in DYADIC:
            progs.append((m + e + "d ", m, e))
            progs.append((m + "d" + e + " ", m, e))
        progs.append(("≬" + e + "dd ", "≬", e))
    return progs


_PROG_CODE = {}


def exact_args(m, e, other, tab):
    """number of stack entries a modified element is entitled to consume"""
    a = tab.get(e, 1)
    if a < 0:
        return None
    if m == "v":
        return a if a >= 1 else None
    if m == "&":
        return max(a - 1, 0)     # the register is pushed first and is one of the element's arguments
    if m == "~":
        return 1 if a == 1 else 0
    if m == "ß":
        return 1 + a
    if m in ("ƒ", "ɖ"):
        return 1
    if m in ("₌", "₍"):
        b = tab.get(other, 1)
        return max(a, b) if a >= 1 and b >= 1 else None
    if m in ("⁽", "‡", "≬"):
        return 0
    return None


def _mod_shard(work):
    part = explore.Partial()
    tab = S.table()
    for prog, m, e in work:
        if e.startswith("<nested"):
            k = 1
            tab = dict(tab)
            tab[e] = 1
        k = max(tab.get(e, 1), 1)
        nargs = k + 1 if m == "ß" else min(k + 1, 3)  # ß pops its condition, then the operand's k arguments
        ex = exact_args(m, e, "d", tab)
        try:
            code = _PROG_CODE.get(prog)
            if code is None:
                code = compile(sandbox.transpile(prog), "<mod>", "exec")
                _PROG_CODE[prog] = code
        except Exception:
            part.skip("modifier program does not transpile/compile (C02's business)")
            continue
        exempt = e in S.WHOLE_STACK or e in S.RUNS_PROGRAM_TEXT
        dom = S.V_MOD + ([[[1, 2], [3, 4]]] if e.startswith("<nested") else [])
        tuples = list(itertools.product(dom, repeat=nargs))
        if ex is not None and ex != nargs and not exempt:
            # exactly as many entries as the modified element may consume: one pop too many now hits the prefix
            tuples += list(itertools.product(dom, repeat=ex))
        for specs in tuples:
            prefix = [[7, [8]], "S", 7]
            snap = [[7, [8]], "S", 7]
            args = [S.make(s) for s in specs]
            import random

            random.seed(0)
            r = sandbox.exec_code(code, stack=prefix + args, timeout=2.0)
            part.count()
            if isinstance(r.exc, sandbox.CaseTimeout):
                part.skip("call did not return within the 2 s backstop (out of domain, listed in sections.nonreturning)")
                part.section("nonreturning", **{prog.strip(): 1})
                continue
            if r.exc is not None:
                part.skip("call raises (out of domain)")
                continue
            part.nontriv()
            part.outcome((m, len(r.stack)))
            v = prefix_verdict(prefix, snap, r.stack)
            if v and exempt:
                v = "whole-stack operation mutated a value" if prefix != snap else None
            if v:
                part.violation("modifier", {"program": prog.strip(), "modifier": m, "element": e,
                                            "args": [S.spec_name(s) for s in specs]},
                               "modified element reaches below its arguments: " + v.split(":")[0],
                               {"modifier": m, "element": e}, "prefix intact", v, size=100 + len(str(specs)))
    return part.data()


def _below_is_result_shard(cases):
    """the entry below the arguments is itself the RESULT of an earlier element (not a plain sentinel): it may be a lazy view of
    something the next element touches (the global array, the register, a variable)"""
    part = explore.Partial()
    for setup, want, later in cases:
        for t in later:
            r = sandbox.run_program(setup)
            if r.exc is not None:
                part.skip("setup raises")
                continue
            below = r.stack[0]
            code = compile(sandbox.transpile(t), "<c09>", "exec")
            r2 = sandbox.exec_code(code, stack=r.stack, ctx=r.ctx, ns=r.ns, timeout=3.0)
            part.count()
            if r2.exc is not None:
                part.skip("call raises (out of domain)")
                continue
            part.nontriv()
            try:
                now = sandbox.pyval(r.stack[0], limit=32) if r.stack else "stack emptied"
            except Exception as e:  # noqa
                now = "reading raises " + type(e).__name__
            same = bool(r.stack) and r.stack[0] is below
            part.outcome((setup, t, same))
            if now != want or not same:
                part.violation("element", {"program": setup + " " + t, "setup": setup, "element": t.strip()},
                               "element reaches below its arguments: a value below the arguments was mutated" if same else
                               "element reaches below its arguments: entry 0 below the arguments was replaced",
                               {"element": t.strip().split()[-1], "arg_kinds": "earlier result below"}, want, now, size=len(setup) + len(t))
    return part.data()


BELOW_CASES = [
    ("1⅛ 2⅛ ¾", [1, 2], ["3⅛ ", "¼ ", "¼_ ", "Þ¾ ", "9 ", "¾ "]),                 # a snapshot of the global array
    ("⟨1|2|3⟩£ ¥", [1, 2, 3], ["5£ ", "¥ ", "¥0 9Ȧ ", "¥Ṙ "]),                    # the register's value
    ("⟨1|2|3⟩→a ←a ", [1, 2, 3], ["5→a ", "←a ", "←a 0 9Ȧ ", "←a s "]),           # a variable's value
    ("3ɾ:", [1, 2, 3], ["Ṙ ", "L ", "0 9Ȧ ", "h ", "∑ ", "t ", "1 c "]),            # a lazy duplicate
    ("3ɾ›D", [2, 3, 4], ["Ṙ ", "L ", "$ ", "+ ", "0 9Ȧ "]),
]


# The five elements whose number of results depends on the data (their templates do `stack += <list of results>`): the documented
# count per overload (elements.yaml): ÷ "push each digit / character / item"; y "a[::2], a[1::2]"; ₅ "num: a % 5 == 0", "any: a, len(a)";
# Ḋ "num-num: a % b == 0", "num-str: a copies of b", "str-num: b copies of a", "str-str: b + ' ' + a".
COUNT_VALUES = [3, 0, 12, "ab", "a", "", "12", [1, 2, 3], [], [4]]


def documented_count(key, args):
    kinds = ["num" if isinstance(a, int) else "str" if isinstance(a, str) else "lst" for a in args]
    a = args[0]
    if key == "÷":
        return len(str(a)) if kinds[0] == "num" else len(a)
    if key == "y":
        return 2 if kinds[0] != "num" else None
    if key == "₅":
        return 1 if kinds[0] == "num" else 2
    if key == "Ḋ":
        b = args[1]
        if kinds == ["num", "num"]:
            return 1 if b != 0 else None
        if kinds == ["num", "str"]:
            return a
        if kinds == ["str", "num"]:
            return b
        if kinds == ["str", "str"]:
            return 1
    return None


def _count_shard(keys):
    import itertools

    part = explore.Partial()
    for key in keys:
        ar = 2 if key == "Ḋ" else 1
        for args in itertools.product(COUNT_VALUES, repeat=ar):
            want = documented_count(key, list(args))
            if want is None:
                continue
            prefix = [[7, [8]], "S", 7]
            fresh = [list(a) if isinstance(a, list) else a for a in args]
            stack, exc, _ = sandbox.apply_element(key, prefix + fresh, timeout=5.0)
            part.count()
            if exc is not None:
                part.skip("call raises (out of domain)")
                continue
            part.nontriv()
            got = len(stack) - len(prefix)
            part.outcome((key, want))
            ok = got == want and sandbox.pyval(stack[:3]) == [[7, [8]], "S", 7]
            if ok and key == "Ḋ" and isinstance(args[0], str) and isinstance(args[1], str):
                ok = stack[-1] == args[1] + " " + args[0]
            if not ok:
                part.violation("element", {"element": key, "args": [repr(a) for a in args]},
                               "the top k entries are not replaced by the documented number of results",
                               {"element": key, "arg_kinds": ",".join(type(a).__name__ for a in args)}, want,
                               [got, [repr(x)[:30] for x in stack[3:][:8]]], size=len(repr(args)))
    return part.data()


def run(tier, seed):
    rep = Report(PROP, tier, seed, "exploration")
    explore.pmap(_below_is_result_shard, [[c] for c in BELOW_CASES], rep, seed)
    explore.pmap(_count_shard, [["÷"], ["y"], ["₅"], ["Ḋ"]], rep, seed)
    explore.pmap(_elem_shard, S.shards(tier, 96), rep, seed)
    tab = S.table()
    keys = [k for k in tab if k not in S.EXIT]
    progs = modifier_programs(keys) + nested_modifier_programs()
    explore.pmap(_mod_shard, explore.chunks(progs, 96), rep, seed)
    rep.extra["allow_skips"] = True
    rep.extra["elements"] = len(tab)
    rep.extra["modifier_programs"] = len(progs)
    dom = S.V_FULL if tier == "thorough" else S.V_QUICK
    rep.rule = ("every key of the element table (%d) with its table arity k on prefix [[7,[8]],'S',7] + every argument tuple over "
                "%d values (k<=2) / %d values (k=3): %s; every modifier applied to every element (%d programs) on all tuples over "
                "%s; the documented NUMBER of results of the four data-dependent elements (÷ y ₅ Ḋ) over 10 values. Non-trivial = the call returned normally (raising calls are out of domain); distinct = (element, tuple)."
                % (len(tab), len(dom), len(S.V_TRIAD), [S.spec_name(s) for s in dom], len(progs),
                   [S.spec_name(s) for s in S.V_MOD]))
    rep.sample({"element": "+", "stack": "prefix + [3, 'ab']"})
    rep.sample({"element": "Ȧ", "stack": "prefix + [[1,2,3], 0, 'ab']"})
    rep.sample({"program": "v+", "stack": "prefix + [[1,2,3], 3, 'ab']"})
    rep.assumptions = ["documented whole-stack operations %s are exempt from the depth oracle; so are Ė/† on program text and printing a bare function value (both CALL, i.e. run code on the stack)" % sorted(S.WHOLE_STACK),
                       "random elements run with random.seed(0)"]
    return rep


def replay(art):
    c = art["case"]
    return "re-run the check; element-level replay: python -m vmc.run C09" if False else _replay(c)


def _replay(c):
    tab = S.table()
    if "program" in c:
        d = _mod_shard([(c["program"] + " ", c["modifier"], c["element"])])
    else:
        work = [(c["element"], specs) for specs in S.tuples_for(max(tab[c["element"]], 0), "thorough")
                if [S.spec_name(s) for s in specs] == c["args"]]
        d = _elem_shard(work)
    return d["violations"] or None
