"""C04 - omitting trailing closers never changes the parse. (E), exhaustive."""
from __future__ import annotations

import itertools

from vmc.core import explore, sandbox
from vmc.core.report import Report

PROP = "C04"

# chain elements: (name, opening text, closer or "")
CHAIN = [
    ("if1", "[", "]"), ("if2", "[+|", "]"), ("if3b", "[+|-|", "]"),
    ("for", "(", ")"), ("forv", "(i|", ")"),
    ("while", "{", "}"), ("whilec", "{:|", "}"),
    ("lam", "λ", ";"), ("lam2", "λ2|", ";"), ("map", "ƛ", ";"), ("filt", "'", ";"), ("sort", "µ", ";"),
    ("fn", "@f|", ";"), ("fnp", "@f:x|", ";"),
    ("list1", "⟨", "⟩"), ("list2", "⟨+|", "⟩"),
    ("vmod", "v", ""), ("dmod", "₌+", ""), ("tmod", "≬+-", ""),
]
# tails: (name, text, droppable closing delimiter length)
TAILS = [
    ("elem", "+", 0), ("string", "`ab`", 1), ("cstring", "«ab«", 1), ("cnumber", "»ab»", 1),
    ("twochar", "‛ab", 0), ("varset", "→x", 0), ("number", "12", 0), ("call", "@g;", 1), ("emptystr", "``", 1),
    ("lam_in_tail", "λ+;", 1),
    ("nothing", "", 0),                       # the innermost structure is empty: the opener is the last token once closers are dropped
    ("string_ending_in_escape", "`a\\n`", 1),   # the escape is the last thing before the (droppable) closing back-quote
    ("string_ending_in_escaped_backquote", "`a\\``", 1),
    ("string_ending_in_escaped_backslash", "`a\\\\`", 1),
    ("char", "\\a", 0), ("codepage", "⁺a", 0),
    ("string_ending_in_newline", "`a\n`", 1), ("newline_element", "+\n", 0), ("char_newline", "\\\n", 0), ("comment", "+#c\n", 0),
    ("space", "+ ", 0),
]


def build(chain, tail):
    opening = "".join(c[1] for c in chain)
    closers = "".join(c[2] for c in reversed(chain))
    closed = opening + tail[1] + closers
    droppable = len(closers) + (tail[2] if True else 0)
    return closed, droppable


def parse_repr(text):
    try:
        return repr(sandbox.parse(sandbox.tokenise(text)))
    except Exception as e:  # noqa
        return "raises %s: %s" % (type(e).__name__, str(e)[:60])


def check_chain(part, chain, tail):
    closed, droppable = build(chain, tail)
    want = parse_repr(closed)
    part.outcome(hash(want) % 100003)
    for k in range(1, droppable + 1):
        trunc = closed[:-k]
        got = parse_repr(trunc)
        part.count()
        if got != want:
            dropped = closed[-k:]
            part.violation("truncation", {"closed": closed, "truncated": trunc, "dropped": dropped,
                                          "chain": [c[0] for c in chain], "tail": tail[0]},
                           "dropping trailing closers changes the parse",
                           {"innermost": chain[-1][0] if chain else "top", "tail": tail[0], "dropped": dropped},
                           want[:300], got[:300], size=len(closed) * 10 + k)
    part.nontriv()


def _shard(args):
    firsts, depth = args
    part = explore.Partial()
    for first in firsts:
        for d in range(0, depth):
            for rest in itertools.product(CHAIN, repeat=d):
                chain = (first,) + rest
                for tail in TAILS:
                    check_chain(part, chain, tail)
    return part.data()


def run(tier, seed):
    rep = Report(PROP, tier, seed, "exploration")
    depth = 3 if tier == "quick" else 4
    explore.pmap(_shard, [([c], depth) for c in CHAIN], rep, seed)
    # depth 0: tails alone
    part = explore.Partial()
    for tail in TAILS:
        check_chain(part, (), tail)
    rep.merge_partial(part.data())
    rep.rule = ("all nesting chains of depth 0..%d over %d chain elements (9 structure kinds in each branch arity, 3 modifier "
                "arities) x %d tails; for each closed program every suffix of its trailing closers (and closing string "
                "delimiter) is dropped; oracle: repr(parse(tokenise(.))) identical. Distinct = distinct closed program."
                % (depth, len(CHAIN), len(TAILS)))
    rep.extra["chain_elements"] = [c[0] + " " + c[1] for c in CHAIN]
    rep.extra["tails"] = [t[1] for t in TAILS]
    import random

    rnd = random.Random(seed)
    for _ in range(3):
        ch = tuple(rnd.choice(CHAIN) for _ in range(depth))
        t = rnd.choice(TAILS)
        closed, n = build(ch, t)
        rep.sample({"closed": closed, "truncations": [closed[:-k] for k in range(1, n + 1)]})
    rep.assumptions = ["repr() of the structure tree identifies it (token kinds and values, structure classes, branches)"]
    return rep


def replay(art):
    c = art["case"]
    a, b = parse_repr(c["closed"]), parse_repr(c["truncated"])
    return None if a == b else (a, b)
