"""C03 - literal contents and comments are data, never syntax. (E), exhaustive."""
from __future__ import annotations

import itertools

from vmc.core import explore, sandbox
from vmc.core.report import Report

PROP = "C03"
SYNTAX = list("|;])}⟩Xxv⁽&~ßƒɖ₌‡₍≬[({λƛ'µ⟨@")
NEUTRAL = "a"
PAYLOAD_CHARS = SYNTAX + [NEUTRAL, " ", "k", "∆", "#", "0", "→"]

# literal kinds: (name, render(payload) -> text, lengths, token kind or None for comments)
KINDS = {
    "string": (lambda p: "`" + p + "`", (0, 1, 2), "string"),
    "string_unclosed_ctx": (lambda p: "`" + p + "`", (1,), "string"),
    "twochar": (lambda p: "‛" + p, (2,), "string"),
    "char": (lambda p: "\\" + p, (1,), "character"),
    "cstring": (lambda p: "«" + p + "«", (0, 1, 2), "compressed_string"),
    "cnumber": (lambda p: "»" + p + "»", (0, 1, 2), "compressed_number"),
    "codepage": (lambda p: "⁺" + p, (1,), "codepage_number"),
    "comment": (lambda p: "#" + p + "\n", (0, 1, 2), None),
}
del KINDS["string_unclosed_ctx"]

CONTEXTS = [
    "{}", "+{}+", "1{}2",
    "[{}|+]", "[+|{}]", "[+|+|{}]", "[+|{}|+|+]", "[{}",
    "({})", "(a|{})", "({}", "(+{}+)+",
    "{{{}|+}}", "{{+|{}}}", "{{{}}}",
    "@f|{};", "@f:a|{};", "@f:2|{};+",
    "λ{};", "λ2|{};", "ƛ{};", "'{};", "µ{};+",
    "⟨{}|+⟩", "⟨+|{}⟩", "⟨{}⟩",
    "v{}+", "₌{}+", "₌+{}", "≬{}++", "≬+{}+", "≬++{}", "&{}", "~{}+", "ß{}", "ƒ{}", "ɖ{}", "⁽{}+", "‡{}+", "‡+{}", "₍{}+", "₍+{}",
    "[({})|+]", "(⟨{}|+⟩)", "λ[+|{}];", "⟨v{}|+⟩", "@f|({});", "{{[{}]|+}}", "ƛ⟨+|{}⟩;+", "[+|λ{};|+]",
    "[+|({}", "λ⟨{}", "(ƛ{}",
    # the literal is the LAST token of its branch / program after a modifier
    "v{}", "[1|v{}]2", "(n⁽{})3", "λ~{};", "₍+{}", "⟨+|ß{}⟩",
    # the literal is a modifier's operand and an X / x follows LATER in the same branch (what that X / x refers to is part of the shape)
    "(v{}X", "(v{}x)", "λß{}X;", "(&{}+x", "{{v{}X|+}}", "(1[~{}X])", "(₌{}+X", "(₌+{}x", "λ⁽{}X;", "(‡{}+X)", "@f|v{}X;", "⟨v{}X|+⟩",
    # the literal is followed, later in the program, by closers and another comment (text that could pair up with a payload)
    "{}(+)#a\n", "{}{{+|+}}#a\n", "{}[+]#a\n+", "{}⟨+⟩#a\n", "{}λ+;#a\n", "1{}\n{{:|‹}}# z\n_",
]


def shape(x):
    from vyxal.lexer import Token, TokenType
    from vyxal.structure import Structure

    LIT = (TokenType.STRING, TokenType.CHARACTER, TokenType.COMPRESSED_NUMBER, TokenType.COMPRESSED_STRING,
           TokenType.CODEPAGE_NUMBER)
    if isinstance(x, Token):
        return ("T", x.name.value, None if x.name in LIT else x.value)
    if isinstance(x, Structure):
        par = getattr(x, "parent_structure", None)
        return (type(x).__name__, getattr(x, "modifier", None), getattr(par, "__name__", par),
                tuple(shape(b) for b in x.branches))
    if isinstance(x, (list, tuple)):
        return tuple(shape(b) for b in x)
    if isinstance(x, type):
        return x.__name__
    return x


def analyse(text):
    try:
        toks = sandbox.tokenise(text)
    except sandbox.NonTermination:
        return [], "tokenise does not terminate"
    try:
        tree = shape(sandbox.parse(toks))
    except Exception as e:  # noqa
        tree = "raises " + type(e).__name__
    return toks, tree


def check(part, kind, ctx_t, payload, base_cache):
    render, _, tokkind = KINDS[kind]
    text = ctx_t.format(render(payload))
    key = (kind, ctx_t, len(payload))
    if key not in base_cache:
        base_cache[key] = analyse(ctx_t.format(render(NEUTRAL * len(payload))))
    btoks, btree = base_cache[key]
    toks, tree = analyse(text)
    part.count()
    bad = None
    if tree != btree:
        bad = ("grouping changed", btree, tree)
    else:
        # token level: same kinds everywhere; the one literal carries exactly the payload
        if len(toks) != len(btoks) or any(a.name != b.name for a, b in zip(toks, btoks)):
            bad = ("token kinds changed", [[t.name.value, t.value] for t in btoks], [[t.name.value, t.value] for t in toks])
        elif tokkind is not None:
            diffs = [(a, b) for a, b in zip(toks, btoks) if a.value != b.value]
            lits = [a for a in toks if a.name.value == tokkind and a.value == payload]
            if payload != NEUTRAL * len(payload) and (len(diffs) != 1 or diffs[0][0].value != payload):
                bad = ("literal value is not the payload", payload, [[t.name.value, t.value] for t in toks])
            elif not lits:
                bad = ("literal value is not the payload", payload, [[t.name.value, t.value] for t in toks])
    part.outcome((kind, str(btree)[:80]))
    if bad:
        # which payload character is to blame (first one whose single-char payload also breaks, else whole payload)
        part.violation("literal", {"kind": kind, "context": ctx_t, "payload": payload, "text": text},
                       "%s literal: %s" % (kind, bad[0]),
                       {"kind": kind, "what": bad[0], "chars": "".join(sorted(set(payload) - {NEUTRAL}))},
                       sandbox.jsonable(bad[1]), sandbox.jsonable(bad[2]), size=len(payload) * 100 + len(ctx_t))


def payloads(kind, quick):
    _, lengths, _ = KINDS[kind]
    forbidden = {"cstring": "«", "cnumber": "»", "comment": "\n", "string": "`\\"}.get(kind, "")
    chars = [c for c in PAYLOAD_CHARS if c not in forbidden]
    for n in lengths:
        for p in itertools.product(chars, repeat=n):
            yield "".join(p)


def _shard(args):
    kind, ctxs, quick = args
    part = explore.Partial()
    cache = {}
    n = 0
    for ctx_t in ctxs:
        for p in payloads(kind, quick):
            check(part, kind, ctx_t, p, cache)
            n += 1
    part.d["nontrivial_n"] += n
    part.section(kind, cases=n)
    return part.data()


def run(tier, seed):
    rep = Report(PROP, tier, seed, "exploration")
    shards = []
    for kind in KINDS:
        for c in explore.chunks(CONTEXTS, 8):
            shards.append((kind, c, tier == "quick"))
    explore.pmap(_shard, shards, rep, seed)
    rep.rule = ("%d literal kinds x all payloads of the kind's lengths (<=2) over %d characters (the 28 syntax-significant "
                "ones + neutral/space/digraph-prefix/comment/digit/arrow) x %d contexts; oracle: parse shape equals the shape "
                "with the neutral payload, token kinds unchanged, the literal token's value is the payload. "
                "Each (kind, context, payload) is distinct." % (len(KINDS), len(PAYLOAD_CHARS), len(CONTEXTS)))
    rep.extra["contexts"] = CONTEXTS
    rep.sample({"kind": "cnumber", "context": "[{}|+]", "payload": "|", "text": "[»|»|+]"})
    rep.sample({"kind": "char", "context": "λ[+|{}];", "payload": "X", "text": "λ[+|\\X];"})
    rep.sample({"kind": "comment", "context": "(a|{})", "payload": ")|", "text": "(a|#)|\n)"})
    rep.assumptions = ["shape(): structure class, modifier, break/recurse parent and branches, literal tokens reduced to their kind"]
    return rep


def replay(art):
    c = art["case"]
    part = explore.Partial()
    check(part, c["kind"], c["context"], c["payload"], {})
    return part.d["violations"] or None
