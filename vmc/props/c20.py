"""C20 - every element is typeable in one byte per character and reachable.
Finite space, enumerated completely."""
from __future__ import annotations

import ast
import os

from vmc.core import sandbox, yamlread
from vmc.core.report import Report

PROP = "C20"


def dict_literal_keys(path, name):
    """Keys of the module-level dict literal `name` in source order (a dict hides duplicates)."""
    with open(path, encoding="utf-8") as f:
        tree = ast.parse(f.read())
    for node in tree.body:
        tgt = None
        if isinstance(node, ast.AnnAssign) and isinstance(node.target, ast.Name):
            tgt = node.target.id
        elif isinstance(node, ast.Assign) and len(node.targets) == 1 and isinstance(node.targets[0], ast.Name):
            tgt = node.targets[0].id
        if tgt == name and isinstance(node.value, ast.Dict):
            out = []
            for k, v in zip(node.value.keys, node.value.values):
                if isinstance(k, ast.Constant):
                    out.append((k.value, k.lineno, ast.unparse(v)[:60]))
            return out
    return None


def run(tier, seed):
    rep = Report(PROP, tier, seed, "exploration")
    sandbox.setup()
    import vyxal.elements as E
    import vyxal.encoding as enc
    import vyxal.parse as P
    from vyxal import structure
    from vyxal.lexer import Token, TokenType

    def tokenise(text):     # a key that makes the lexer / parser loop yields no tokens / no tree (and so a violation below)
        try:
            return sandbox.tokenise(text)
        except sandbox.NonTermination:
            return []

    def parse_tokens(toks):
        try:
            return sandbox.parse(toks)
        except sandbox.NonTermination:
            return []

    cp = enc.codepage

    def viol(kind, case, sig, tags=None, exp=None, obs=None):
        rep.violation(kind, case, sig, tags or {}, exp, obs, size=len(str(case)))

    # (a) 256 distinct characters, byte <-> char bijection
    rep.count(256)
    if len(cp) != 256 or len(set(cp)) != 256:
        dup = sorted({c for c in cp if cp.count(c) > 1})
        viol("codepage", {"duplicates": dup, "len": len(cp)}, "codepage: not 256 distinct characters",
             {"chars": "".join(dup)})
    for b in range(min(256, len(cp))):
        rep.nontriv(("byte", b))
        try:
            s = enc.vyxal_to_utf8([b])
            back = enc.utf8_to_vyxal(s)
            ok = back == chr(b)
        except Exception as e:
            ok, back = False, "raises " + type(e).__name__
        if not ok:
            viol("byte", {"byte": b}, "codepage: byte does not round-trip", {"byte": b}, chr(b), back)
        # the same byte as main.py hands it over with the v flag (a bytes object read from a file), and as a bytearray
        for form, arg in (("bytes", bytes([b])), ("bytearray", bytearray([b]))):
            rep.count()
            try:
                s2 = enc.vyxal_to_utf8(arg)
                ok2 = s2 == cp[b]
            except Exception as e:
                ok2, s2 = False, "raises " + type(e).__name__
            if not ok2:
                viol("byte", {"byte": b, "given_as": form}, "codepage: byte decodes differently when given as bytes", {"byte": b, "form": form},
                     cp[b], s2)

    # (b) all 65536 two-byte strings, both directions
    bad_pairs = 0
    for a in range(256):
        for b in range(256):
            rep.count()
            s = enc.vyxal_to_utf8([a, b])
            back = enc.utf8_to_vyxal(s)
            if back != chr(a) + chr(b) or len(s) != 2:
                bad_pairs += 1
                if bad_pairs <= 50:
                    viol("bytepair", {"bytes": [a, b]}, "codepage: byte pair does not round-trip",
                         {"bytes": "%d,%d" % (a, b)}, [a, b], [ord(c) for c in back])
            if enc.vyxal_to_utf8(bytes([a, b])) != s:
                bad_pairs += 1
                if bad_pairs <= 50:
                    viol("bytepair", {"bytes": [a, b], "given_as": "bytes"}, "codepage: byte pair decodes differently when given as bytes",
                         {"bytes": "%d,%d" % (a, b)}, s, enc.vyxal_to_utf8(bytes([a, b])))
            t = cp[a] + cp[b]
            tb = enc.utf8_to_vyxal(t)
            if enc.vyxal_to_utf8([ord(c) for c in tb]) != t:
                bad_pairs += 1
                if bad_pairs <= 50:
                    viol("textpair", {"text": t}, "codepage: text pair does not round-trip", {"text": t})
    rep.nontriv("pairs")
    rep.section("bytepairs", checked=65536 * 2, bad=bad_pairs)

    # (c) keys
    struct_open = list(P.STRUCTURE_INFORMATION)
    closers = sorted({v[1] for v in P.STRUCTURE_INFORMATION.values()})
    mod_lists = {1: list(P.MONADIC_MODIFIERS), 2: list(P.DYADIC_MODIFIERS), 3: list(P.TRIADIC_MODIFIERS)}
    lambda_makers = {"⁽": 1, "‡": 2, "≬": 3}
    specials = [P.BREAK_CHARACTER, P.RECURSE_CHARACTER]

    def lex_one(key, what):
        rep.count()
        rep.nontriv((what, key))
        for ch in key:
            if ch not in cp:
                viol("key", {"key": key, "table": what}, "key uses a character outside the code page",
                     {"key": key, "table": what})
                return False
        toks = tokenise(key)
        if toks != [Token(TokenType.GENERAL, key)]:
            viol("key", {"key": key, "table": what}, "key is not scanned as exactly one GENERAL token",
                 {"key": key, "table": what}, [["general", key]], [[t.name.value, t.value] for t in toks])
            return False
        # still one token when followed / preceded by neutral neighbours
        for ctxs in (key + "+", "+" + key, key + "|", key + " "):
            toks = tokenise(ctxs)
            if Token(TokenType.GENERAL, key) not in toks:
                viol("key", {"key": key, "table": what, "text": ctxs},
                     "key is glued to its neighbour by the lexer", {"key": key, "table": what},
                     None, [[t.name.value, t.value] for t in toks])
                return False
        return True

    elem_keys = list(E.elements)
    for key in elem_keys:
        if not lex_one(key, "elements"):
            continue
        tree = parse_tokens(tokenise(key))
        ok = (len(tree) == 1 and type(tree[0]) is structure.GenericStatement
              and tree[0].branches[0][0] == Token(TokenType.GENERAL, key))
        if not ok:
            viol("key", {"key": key, "table": "elements"}, "element key is shadowed by structure syntax",
                 {"key": key, "table": "elements"}, "GenericStatement", repr(tree)[:120])
        rep.outcome(("elem", type(tree[0]).__name__ if tree else "none"))
    for key in E.modifiers:
        if not lex_one(key, "modifiers"):
            continue
        ar = [n for n, lst in mod_lists.items() if key in lst]
        if len(ar) != 1:
            viol("key", {"key": key, "table": "modifiers"}, "modifier template not reachable from the parser's modifier lists",
                 {"key": key, "table": "modifiers"}, "in exactly one modifier list", ar)
            continue
        tree = parse_tokens(tokenise(key + "+" * ar[0]))
        want = {1: structure.MonadicModifier, 2: structure.DyadicModifier, 3: structure.TriadicModifier}[ar[0]]
        if not (len(tree) == 1 and type(tree[0]) is want and tree[0].modifier == key):
            viol("key", {"key": key, "table": "modifiers"}, "modifier key does not parse to its modifier structure",
                 {"key": key, "table": "modifiers"}, want.__name__, repr(tree)[:120])
        if key in E.elements:
            viol("key", {"key": key, "table": "modifiers"}, "modifier key is also an element key (shadowed)",
                 {"key": key, "table": "modifiers+elements"})
        rep.outcome(("mod", ar[0]))
    for n, lst in mod_lists.items():
        for key in lst:
            if not lex_one(key, "modifier_list_%d" % n):
                continue
            if key not in E.modifiers and lambda_makers.get(key) != n:
                viol("key", {"key": key, "table": "modifier lists"}, "parser modifier without a template",
                     {"key": key, "table": "modifier lists"})
            if sum(key in l for l in mod_lists.values()) != 1 or lst.count(key) != 1:
                viol("key", {"key": key, "table": "modifier lists"}, "modifier listed more than once",
                     {"key": key, "table": "modifier lists"})
            if key in E.elements:
                viol("key", {"key": key, "table": "modifier lists"}, "modifier key is also an element key (shadowed)",
                     {"key": key, "table": "modifier lists+elements"})
    for key in struct_open:
        if not lex_one(key, "structures"):
            continue
        cls, closer = P.STRUCTURE_INFORMATION[key]
        tree = parse_tokens(tokenise(key + "+" + closer))
        okc = len(tree) == 1 and isinstance(tree[0], structure.Structure) and type(tree[0]) is not structure.GenericStatement
        if not okc:
            viol("key", {"key": key, "table": "structures"}, "structure opener does not open a structure",
                 {"key": key, "table": "structures"}, cls.__name__, repr(tree)[:120])
        if key in E.elements or any(key in l for l in mod_lists.values()):
            viol("key", {"key": key, "table": "structures"}, "structure character is also an element/modifier key",
                 {"key": key, "table": "structures"})
    for key in closers + specials:
        lex_one(key, "closers/break/recurse")
        if key in closers and key in E.elements:
            viol("key", {"key": key, "table": "closers"}, "closing character is also an element key",
                 {"key": key, "table": "closers"})
    if len(set(struct_open)) != len(struct_open):
        viol("key", {"table": "structures"}, "duplicate structure opener")

    # (d) duplicate keys in the table source
    path = os.path.join(sandbox.REPO, "vyxal", "elements.py")
    for tname in ("elements", "modifiers"):
        keys = dict_literal_keys(path, tname)
        if keys is None:
            viol("source", {"table": tname}, "table is no longer a dict literal; duplicate-key check impossible")
            continue
        seen = {}
        for k, line, val in keys:
            rep.count()
            if k in seen:
                viol("source", {"table": tname, "key": k, "lines": [seen[k][0], line],
                                "first": seen[k][1], "second": val},
                     "duplicate key in the table source (first entry unreachable)",
                     {"key": k, "table": tname})
            else:
                seen[k] = (line, val)
        live = getattr(E, tname)
        if set(seen) != set(live):
            viol("source", {"table": tname}, "dict literal keys differ from the live table",
                 {"table": tname}, None, sorted(set(seen) ^ set(live)))

    # (e) documentation: arity, and each documented entry is typeable
    docs = yamlread.read()
    absent = []
    syntax_chars = set(struct_open) | set(closers) | set("|XxNONE") | set("`‛«»⁺→←\\#°.0123456789 \n") | set(lambda_makers)
    for ent in docs:
        key = ent["key"]
        if key == "\u2424":  # the documentation writes the newline character as its picture
            key = "\n"
        rep.count()
        rep.nontriv(("doc", key, ent.get("name")))
        for ch in key:
            if ch not in cp:
                viol("doc", {"key": key}, "documented key uses a character outside the code page", {"key": key})
        if ent["kind"] == "modifier":
            if key not in E.modifiers and key not in lambda_makers:
                viol("doc", {"key": key}, "documented modifier has no implementation", {"key": key})
            continue
        if key not in E.elements:
            if key in syntax_chars or key in E.modifiers or any(key in l for l in mod_lists.values()):
                continue
            absent.append(key)
            continue
        ar = ent.get("arity")
        try:
            ar_n = int(ar)
        except (TypeError, ValueError):
            continue
        tab = E.elements[key][1]
        # an entry documented twice (e.g. both ÞR entries) is compared only if some documented arity matches
        same_key = [e for e in docs if e["key"] == key and e["kind"] == "element"]
        arities = set()
        for e in same_key:
            try:
                arities.add(int(e.get("arity")))
            except (TypeError, ValueError):
                pass
        if tab not in arities:
            viol("doc", {"key": key, "documented": sorted(arities), "table": tab},
                 "table arity differs from the documented arity", {"key": key}, sorted(arities), tab)
        rep.outcome(("arity", ar_n))
    rep.extra["documented_but_absent_remark"] = absent
    rep.extra["tables"] = {"elements": len(elem_keys), "modifiers": len(E.modifiers),
                           "structures": len(struct_open), "docs": len(docs)}
    rep.rule = ("finite: 256 bytes; 65536 byte pairs in both directions; every key of elements/modifiers/"
                "modifier lists/STRUCTURE_INFORMATION/closers/X/x (lexed alone and with 4 neighbours, parsed); "
                "the dict-literal source of both tables; every yaml entry. distinct_nontrivial counts distinct "
                "bytes, keys and doc entries (the byte-pair sweep counts once).")
    rep.sample({"byte": 0, "char": cp[0]})
    rep.sample({"key": "Þf", "tokens": [["general", "Þf"]], "arity": E.elements["Þf"][1]})
    rep.sample({"bytes": [1, 255], "text": enc.vyxal_to_utf8([1, 255])})
    rep.assumptions = ["line-based yaml reader", "documented-but-absent entries are remarks, not violations"]
    return rep


def replay(art):
    rep = run("quick", 0)
    want = (art["signature"], art["tags"])
    for v in rep.violations:
        if (v.signature, sandbox.jsonable(v.tags)) == want:
            return v.signature
    return None
