"""C06 - quoting a string and evaluating the quoted text returns the same string. (E), exhaustive."""
from __future__ import annotations

import itertools
import string

from vmc.core import explore, sandbox
from vmc.core.report import Report

PROP = "C06"
ESC = ["\\", "`", '"', "'", "\n", "a", "n", "x", "0", "λ"]
ASCII = [c for c in string.printable if c not in "\t\r\x0b\x0c"]  # 96 incl. newline


def roundtrip(s, dc, ns, ctx):
    from vyxal.elements import quotify
    from vyxal.transpile import transpile

    text = quotify(s, ctx)
    code = transpile(text, dc)
    stack = []
    ns["stack"] = stack
    exec(code, ns)
    return text, stack


_QE = {}


def exec_roundtrip(s, dc, ns, ctx):
    """the same round trip made by the program itself: `q` then the exec element `Ė`, under the given compression setting
    (flag D = off)"""
    from vyxal.transpile import transpile

    if dc not in _QE:
        _QE[dc] = compile(transpile("qĖ", dc), "<qE>", "exec")
    ctx.dictionary_compression = dc
    stack = [s]
    ns["stack"] = stack
    ctx.stacks.append(stack)          # as main.execute_vyxal registers the program's stack
    try:
        with sandbox.watchdog(10):
            exec(_QE[dc], ns)
    except sandbox.CaseTimeout:
        raise RuntimeError("q then Ė does not terminate (10 s)")
    finally:
        ctx.dictionary_compression = True
        del ctx.stacks[:]
    return "qĖ", stack


def guarded_roundtrip(s, dc, ns, ctx):
    """evaluating a string literal is immediate; a run that does not come back within 10 s (then 60 s) did not push the string"""
    for limit in (10, 60):
        try:
            with sandbox.watchdog(limit):
                return roundtrip(s, dc, ns, ctx)
        except sandbox.CaseTimeout:
            continue
    raise RuntimeError("evaluating the quoted text does not terminate (60 s)")


def other_kinds_first(s, dc, ns):
    """history step: literals of the OTHER kinds with the same body text are evaluated first in this process"""
    from vyxal.transpile import transpile

    for wrap in ("«%s«", "»%s»"):
        if wrap[0] in s:
            continue
        try:
            with sandbox.watchdog(10):
                ns["stack"] = []
                exec(transpile(wrap % s, dc), ns)
        except BaseException as e:  # noqa
            if isinstance(e, KeyboardInterrupt):
                raise


def classify(s, dc):
    cls = []
    if "\\" in s:
        cls.append("backslash")
    if "`" in s:
        cls.append("backquote")
    if '"' in s:
        cls.append("dquote")
    if "\n" in s:
        cls.append("newline")
    if any(ord(c) > 127 for c in s):
        cls.append("non-ascii")
    return "+".join(cls) or "plain"


def _shard(args):
    first_chars, alphabet_name, maxlen, dc = args[:4]
    history = len(args) > 4 and args[4]
    alphabet = {"esc": ESC, "ascii": ASCII}.get(alphabet_name)
    if alphabet is None:
        import vyxal.encoding

        alphabet = list(vyxal.encoding.codepage)
    part = explore.Partial()
    ns = sandbox.base_namespace()
    ctx = sandbox.fresh_ctx()
    ns["ctx"] = ctx
    n = 0
    for f in first_chars:
        for ln in range(0, maxlen):
            for rest in itertools.product(alphabet, repeat=ln):
                s = f + "".join(rest)
                n += 1
                part.outcome(classify(s, dc))
                try:
                    if history == "exec":
                        text, stack = exec_roundtrip(s, dc, ns, ctx)
                        ok = len(stack) == 1 and stack[0] == s and type(stack[0]) is str
                        if not ok:
                            part.violation("string", {"string": s, "dict_compress": dc, "alphabet": alphabet_name, "via": "qĖ"},
                                           "quote then exec element differs (dict_compress=%s)" % dc,
                                           {"class": classify(s, dc), "dict_compress": dc, "via": "exec element"}, [s],
                                           [repr(x) for x in stack], size=len(s))
                        continue
                    if history == "kinds":
                        other_kinds_first(s, dc, ns)
                    elif history:
                        # history of two evaluations in one process: the same literal first with the OTHER compression setting
                        guarded_roundtrip(s, not dc, ns, ctx)
                    text, stack = guarded_roundtrip(s, dc, ns, ctx)
                    ok = len(stack) == 1 and stack[0] == s and type(stack[0]) is str
                    obs = stack
                except BaseException as e:  # noqa
                    if isinstance(e, KeyboardInterrupt):
                        raise
                    ok, obs, text = False, "raises " + type(e).__name__ + ": " + str(e)[:60], None
                if not ok:
                    part.violation("string", {"string": s, "dict_compress": dc, "alphabet": alphabet_name, "quoted": text},
                                   "quote/evaluate round trip differs (dict_compress=%s)" % dc,
                                   {"class": classify(s, dc), "dict_compress": dc, "after_other_setting": bool(history) and history not in ("kinds", "exec"), "via_exec_element": history == "exec",
                                    "after_other_kinds": history == "kinds"}, [s],
                                   obs if isinstance(obs, str) else [repr(x) for x in obs], size=len(s))
    part.count(n)
    part.d["nontrivial_n"] += n
    part.section("%s_len<=%d_dc=%s%s" % (alphabet_name, maxlen, dc, ("_after_other_kinds" if history == "kinds" else "_after_other_setting") if history else ""), strings=n)
    return part.data()


def run(tier, seed):
    rep = Report(PROP, tier, seed, "exploration")
    quick = tier == "quick"
    sandbox.setup()
    import vyxal.encoding

    cp = list(vyxal.encoding.codepage)
    shards = []
    # (i) escape-relevant set, length <= 3 (quick and thorough), compression off and (ASCII subset) on
    shards += [([c], "esc", 3, False) for c in ESC]
    esc_ascii = [c for c in ESC if ord(c) < 128]
    shards += [([c], "esc", 3, True) for c in esc_ascii]  # NB: rest may contain λ; see below
    # (ii) whole code page, compression off
    L = 2 if quick else 3
    shards += [([c], "codepage", L, False) for c in cp]
    # (iii) printable ASCII, compression on
    shards += [([c], "ascii", 3, True) for c in ASCII]
    # two-step histories: the same literal evaluated with the other compression setting first (a cache keyed on the text alone
    # would survive every single-shot case)
    shards += [([c], "codepage", 2, False, True) for c in cp]
    shards += [([c], "ascii", 2, True, True) for c in ASCII]
    shards += [([c], "esc", 3, False, True) for c in ESC]
    # ... and a compressed-string / compressed-number literal with the same body first (a cache keyed on the body alone)
    shards += [([c], "codepage", 2, False, "kinds") for c in cp]
    shards += [([c], "ascii", 2, True, "kinds") for c in ASCII]
    shards += [([c], "esc", 3, False, "kinds") for c in ESC]
    # ... and the round trip made inside a program: q then the exec element, under flag D (compression off) and without it
    shards += [([c], "codepage", 2 if quick else 3, False, "exec") for c in cp]
    shards += [([c], "ascii", 2, True, "exec") for c in ASCII]
    shards += [([c], "esc", 3, False, "exec") for c in ESC]
    shards.append(([""], "esc", 1, False))
    shards.append(([""], "esc", 1, True))
    explore.pmap(_shard, shards, rep, seed)
    # The (i)/dc=True shards include strings with λ (non-ASCII); the property only claims ASCII with
    # compression on, so drop violations on non-ASCII strings under compression.
    kept = []
    for v in rep.violations:
        if v.case.get("dict_compress") and any(ord(c) > 127 for c in v.case["string"]):
            rep.skip("non-ASCII string with compression on (outside the property)")
            continue
        kept.append(v)
    rep.violations = kept
    rep.extra["allow_skips"] = True
    rep.rule = ("all strings of length <=3 over the escape-relevant set %r (compression off; ASCII ones also on); all "
                "strings of length <=%d over the 256-character code page, compression off; all printable-ASCII strings "
                "of length <=%d, compression on; plus two-step histories (the same literal first evaluated with the other compression setting in the same process) for all strings <=2 over the code page / ASCII and <=3 over the escape set, and the same sets after a compressed-string and a compressed-number literal with the same body text; and the round trip made by a program itself (q then the exec element) under both compression settings. Every string is distinct and counts as non-trivial." % (
                    "".join(ESC), L, 3))
    import random

    rnd = random.Random(seed)
    rep.sample({"string": "\\`", "quoted": "`\\\\\\``"})
    for _ in range(3):
        rep.sample({"string": "".join(rnd.choice(cp) for _ in range(L))})
    rep.assumptions = ["CPython exec of the generated string literal"]
    return rep


def replay(art):
    c = art["case"]
    ns = sandbox.base_namespace()
    ctx = sandbox.fresh_ctx()
    ns["ctx"] = ctx
    try:
        text, stack = roundtrip(c["string"], c["dict_compress"], ns, ctx)
    except Exception as e:
        return "raises " + repr(e)
    return None if stack == [c["string"]] else repr(stack)
