"""C16 - list builtins obey their defining laws. (E), exhaustive over small integer lists."""
from __future__ import annotations

import itertools
import math
from collections import Counter

from vmc.core import explore, sandbox
from vmc.core.report import Report

PROP = "C16"
DOM = (-2, -1, 0, 1, 2, 3)


def key_sorted(xs):
    return sorted(xs, key=lambda v: repr(v))


def first_occ(xs):
    out = []
    for x in xs:
        if x not in out:
            out.append(x)
    return out


def groups(xs):
    return [list(g) for _, g in itertools.groupby(xs)]


def subseqs(xs):
    n = len(xs)
    return [[xs[i] for i in range(n) if m >> i & 1] for m in range(1 << n)]


def contiguous(xs):
    n = len(xs)
    return [xs[i:j] for i in range(n) for j in range(i + 1, n + 1)]


def interleave(a, b):
    out = []
    for i in range(max(len(a), len(b))):
        if i < len(a):
            out.append(a[i])
        if i < len(b):
            out.append(b[i])
    return out


def transpose(rows):
    m = max((len(r) for r in rows), default=0)
    return [[r[i] for r in rows if i < len(r)] for i in range(m)]


# law = (name, key, mode, expected(xs) -> value or None (out of the law's domain))
# modes: eq (top of stack equals), multiset, perm_sorted_asc/desc (grading), top2 (two pushes)
MONADS = [
    ("sort is the ordered permutation", "s", "eq", lambda xs: sorted(xs)),
    ("reverse", "Ṙ", "eq", lambda xs: xs[::-1]),
    ("uniquify keeps first occurrences", "U", "eq", first_occ),
    ("sum is the fold of +", "∑", "eq", lambda xs: sum(xs)),
    ("product is the fold of *", "Π", "eq", lambda xs: math.prod(xs) if xs else None),
    ("max", "G", "eq", lambda xs: max(xs) if xs else None),
    ("min", "g", "eq", lambda xs: min(xs) if xs else None),
    ("cumulative sums", "¦", "eq", lambda xs: list(itertools.accumulate(xs))),
    ("deltas", "¯", "eq", lambda xs: [b - a for a, b in zip(xs, xs[1:])]),
    ("wrap", "w", "eq", lambda xs: [xs]),
    ("prefixes", "K", "eq", lambda xs: [xs[: i + 1] for i in range(len(xs))]),
    ("sublists are the contiguous sublists", "ÞS", "multiset", contiguous),
    ("powerset has the 2^n subsequences", "ṗ", "multiset", subseqs),
    ("permutations", "Ṗ", "multiset", lambda xs: [list(p) for p in itertools.permutations(xs)]),
    ("group consecutive", "Ġ", "eq", groups),
    ("counts", "Ċ", "eq", lambda xs: [[x, xs.count(x)] for x in first_occ(xs)]),
    ("grade up is the stable ascending grade", "⇧", "eq", lambda xs: sorted(range(len(xs)), key=lambda i: xs[i])),
    ("grade down is the stable descending grade", "⇩", "eq", lambda xs: sorted(range(len(xs)), key=lambda i: xs[i], reverse=True)),
    ("length", "L", "eq", len),
    ("head", "h", "eq", lambda xs: xs[0] if xs else None),
    ("tail", "t", "eq", lambda xs: xs[-1] if xs else None),
    ("head remove", "Ḣ", "eq", lambda xs: xs[1:]),
    ("tail remove", "Ṫ", "eq", lambda xs: xs[:-1]),
    ("enumerate", "ė", "eq", lambda xs: [[i, x] for i, x in enumerate(xs)]),
    ("truthy indices", "T", "eq", lambda xs: [i for i, x in enumerate(xs) if x]),
    ("any", "a", "eq", lambda xs: int(any(xs))),
    ("all", "A", "eq", lambda xs: int(all(xs))),
    ("all equal", "≈", "eq", lambda xs: int(len(set(xs)) <= 1)),
    ("all unique", "Þu", "eq", lambda xs: int(len(set(xs)) == len(xs))),
    ("uniquify mask", "ÞU", "eq", lambda xs: [int(x not in xs[:i]) for i, x in enumerate(xs)]),
    ("maximal indices", "ÞM", "eq", lambda xs: [i for i, x in enumerate(xs) if x == max(xs)] if xs else None),
    ("uninterleave", "y", "top2", lambda xs: [xs[::2], xs[1::2]]),
    ("zip with self", "z", "eq", lambda xs: [[x, x] for x in xs]),
    ("head extract", "ḣ", "top2", lambda xs: [xs[0], xs[1:]] if xs else None),
    ("tail extract", "ṫ", "top2", lambda xs: [xs[:-1], xs[-1]] if xs else None),
]

DYADS = [
    ("zip pairs position-wise, zero fill", "Z", "eq",
     lambda a, b: [[x, y] for x, y in itertools.zip_longest(a, b, fillvalue=0)]),
    ("interleave", "Y", "eq", interleave),
    ("merge concatenates", "J", "eq", lambda a, b: a + b),
    ("cartesian product enumerates exactly the pairs", "Ẋ", "multiset",
     lambda a, b: [[x, y] for x in a for y in b]),
]

SCALAR_DYADS = [  # (list, scalar)
    ("count", "O", "eq", lambda xs, v: xs.count(v)),
    ("contains", "c", "eq", lambda xs, v: int(v in xs)),
    ("prepend", "p", "eq", lambda xs, v: [v] + xs),
    ("append via merge", "J", "eq", lambda xs, v: xs + [v]),
]

PROGRAM_LAWS = [  # small compositions run as programs on [xs] (or [xs, ys])
    ("reverse is an involution", "ṘṘ", 1, lambda xs: xs),
    ("flatten concatenates leaves", None, 1, None),  # handled specially
    ("uninterleave inverts interleave", "Yy\"", 2, None),
    ("transpose", "\"∩", 2, lambda a, b: transpose([a, b])),
    ("transpose twice (rectangular)", "\"∩∩", 2, None),
    ("sort is idempotent", "ss", 1, lambda xs: sorted(xs)),
]


def lazy(v):
    from vyxal.LazyList import LazyList

    if isinstance(v, list):
        return LazyList(iter([lazy(x) if isinstance(x, list) else x for x in v]))
    return v


def compare(mode, got_stack, want):
    pv = sandbox.pyval
    if mode == "eq":
        return pv(got_stack[-1]) == want if got_stack else False
    if mode == "top2":
        return len(got_stack) >= 2 and [pv(got_stack[-2]), pv(got_stack[-1])] == want
    if mode == "multiset":
        if not got_stack:
            return False
        g = pv(got_stack[-1])
        return isinstance(g, list) and key_sorted(g) == key_sorted(want)
    if mode in ("grade_asc", "grade_desc"):
        if not got_stack:
            return False
        g = pv(got_stack[-1])
        xs = want
        if not isinstance(g, list) or sorted(g) != list(range(len(xs))):
            return False
        vals = [xs[i] for i in g]
        return vals == sorted(xs, reverse=(mode == "grade_desc"))
    raise ValueError(mode)


def judge(part, name, key, mode, args_py, want, form, prog=None):
    """args_py: list of python values; form: 'eager' | 'lazy'."""
    if want is None:
        part.skip("outside the law's domain (e.g. fold of an empty list)")
        return
    args = [lazy(a) if form == "lazy" else ([list(x) if isinstance(x, list) else x for x in a] if isinstance(a, list) else a)
            for a in args_py]
    part.count()
    if prog is None:
        stack, exc, _ = sandbox.apply_element(key, args)
    else:
        r = sandbox.run_program(prog, stack=list(args))
        stack, exc = r.stack, r.exc
    if isinstance(exc, sandbox.CaseTimeout):
        part.cap("backstop hit (slow is not wrong): %s" % (key or prog))
        return
    if exc is not None:
        ok, obs = False, "raises %s: %s" % (type(exc).__name__, str(exc)[:60])
    else:
        try:
            ok = compare(mode, stack, want)
            obs = sandbox.pyval(stack[-2:] if mode == "top2" else (stack[-1] if stack else "empty stack"))
        except Exception as e:  # forcing a lazy result raised
            ok, obs = False, "forcing the result raises %s: %s" % (type(e).__name__, str(e)[:60])
    part.outcome((key or prog, repr(want)[:24]))
    if not ok:
        shape = ",".join("len%d" % len(a) if isinstance(a, list) else "scalar" for a in args_py)
        part.violation("law", {"law": name, "element": key or prog, "args": args_py, "form": form},
                       "%s [%s]: law violated" % (name, key or prog),
                       {"element": key or prog, "form": form, "arg_shape": shape,
                        "what": obs if isinstance(obs, str) else "wrong value"},
                       want, obs, size=sum(len(a) if isinstance(a, list) else 1 for a in args_py) * 10 + (form == "lazy"))


def _monad_shard(lists):
    part = explore.Partial()
    for xs in lists:
        for form in ("eager", "lazy"):
            for name, key, mode, f in MONADS:
                judge(part, name, key, mode, [xs], f(list(xs)), form)
            judge(part, "reverse is an involution", None, "eq", [xs], list(xs), form, prog="ṘṘ")
            judge(part, "sort is idempotent", None, "eq", [xs], sorted(xs), form, prog="ss")
            # flatten: nest the list in a fixed shape and flatten it
            nested = [xs[:1], [xs[1:2], [xs[2:]]], []]
            judge(part, "flatten concatenates leaves", "f", "eq", [nested], list(xs), form)
            judge(part, "vectorised sums of rows", "Ṡ", "eq", [[xs, xs[1:], [0]]], [sum(xs), sum(xs[1:]), 0], form)
            for v in (0, 2):
                for name, key, mode, f in SCALAR_DYADS:
                    judge(part, name, key, mode, [xs, v], f(list(xs), v), form)
        part.nontriv()
    return part.data()


def _dyad_shard(pairs):
    part = explore.Partial()
    for a, b in pairs:
        for form in ("eager", "lazy"):
            for name, key, mode, f in DYADS:
                judge(part, name, key, mode, [a, b], f(list(a), list(b)), form)
            judge(part, "transpose of two rows", None, "eq", [a, b], transpose([a, b]), form, prog='"∩')
            if len(a) == len(b) or len(a) == len(b) + 1:
                judge(part, "uninterleave inverts interleave", None, "top2", [a, b], [list(a), list(b)], form, prog="Yy")
            if len(a) == len(b) and a:
                judge(part, "transpose is an involution on rectangular matrices", None, "eq", [a, b],
                      [list(a), list(b)], form, prog='"∩∩')
        part.nontriv()
    return part.data()


STRING_LAWS = [
    ("sort (string)", "s", lambda s: "".join(sorted(s))),
    ("reverse (string)", "Ṙ", lambda s: s[::-1]),
    ("uniquify (string)", "U", lambda s: "".join(first_occ(list(s)))),
    ("length (string)", "L", len),
    ("head remove (string)", "Ḣ", lambda s: s[1:] if s else None),
    ("prefixes via K is substrings-more-than-once; skipped", None, None),
]


def run(tier, seed):
    rep = Report(PROP, tier, seed, "exploration")
    n = 4 if tier == "quick" else 5
    lists = [list(p) for k in range(n + 1) for p in itertools.product(DOM, repeat=k)]
    # permutations/powerset of length-5 lists are still small (120 / 32 members)
    explore.pmap(_monad_shard, explore.chunks(lists, 64), rep, seed)
    m = 3
    dom2 = (-1, 0, 2) if tier == "quick" else DOM
    small = [list(p) for k in range(m + 1) for p in itertools.product(dom2, repeat=k)]
    if tier == "thorough":
        small += [list(p) for p in itertools.product((0, 3), repeat=4)]
    pairs = [(a, b) for a in small for b in small]
    explore.pmap(_dyad_shard, explore.chunks(pairs, 64), rep, seed)
    # strings
    part = explore.Partial()
    for s in ("", "a", "ab", "aba", "bca"):
        for name, key, f in STRING_LAWS:
            if key is None:
                continue
            judge(part, name, key, "eq", [s], f(s), "eager")
    rep.merge_partial(part.data())
    rep.extra["laws"] = ([l[0] for l in MONADS] + [l[0] for l in DYADS] + [l[0] for l in SCALAR_DYADS] +
                         ["reverse is an involution", "sort is idempotent", "flatten concatenates leaves",
                          "transpose of two rows", "uninterleave inverts interleave", "transpose is an involution"])
    rep.extra["allow_skips"] = True
    rep.rule = ("all integer lists of length <=%d over -2..3 (%d lists), each eager and as a fresh LazyList, against %d monadic "
                "laws; all pairs of lists of length <=%d (%d pairs) against the dyadic laws. Laws are executable right-hand "
                "sides written with itertools/builtins. distinct_nontrivial = distinct lists + distinct pairs." % (
                    n, len(lists), len(MONADS) + 7, m, len(pairs)))
    import random

    rnd = random.Random(seed)
    for _ in range(3):
        rep.sample({"list": rnd.choice(lists), "law": rnd.choice(MONADS)[0]})
    rep.sample({"pair": list(rnd.choice(pairs)), "law": DYADS[0][0]})
    rep.assumptions = ["law right-hand sides are the definitions; folds of empty lists (product/max/min/head/tail) are not judged",
                       "cartesian product / powerset / permutations / sublists are compared as multisets (order is the element's business)"]
    return rep


def replay(art):
    c = art["case"]
    part = explore.Partial()
    args = c["args"]
    if len(args) == 1 and isinstance(args[0], list) and not any(isinstance(x, list) for x in args[0]):
        d = _monad_shard([args[0]])
    elif len(args) == 2 and all(isinstance(a, list) for a in args):
        d = _dyad_shard([(args[0], args[1])])
    else:
        d = _monad_shard([args[0]]) if isinstance(args[0], list) else {"violations": []}
    hits = [v for v in d["violations"] if v["signature"] == art["signature"]]
    return hits or None
