"""C18 - generated Python contains program text only as constants. (E), exhaustive over payloads x positions."""
from __future__ import annotations

import ast
import itertools
import re

from vmc.core import explore, progs, sandbox
from vmc.core.report import Report

PROP = "C18"
ALPHABET = ['"', "'", "\\", "\n", "(", ")", "[", "]", "{", "}", "^", "`", ":", ";", ",", "=", ".", "a", "_", "0", "@", "|",
            "é",        # a character outside the 256-character code page (no digit value in any compression alphabet)
            "x", "N",   # with the backslash: Python escape sequences that need more characters (\\x.., \\N{..})
            "²", "₁"]   # code-page characters that str.isnumeric() / \\w accept but Python identifiers and int() do not
SANCTIONED = re.compile(r"^(VAR_|_lambda_)[A-Za-z0-9_]*$")

# (name, template, benign payload, payload lengths)
POSITIONS = [
    ("string", "`{}`", "a", (1, 2, 3)),
    ("twochar", "‛{}", "aa", (2,)),
    ("char", "\\{}", "a", (1,)),
    ("var-get", "←{}", "a", (1, 2, 3)),
    ("var-set", "1→{}", "a", (1, 2, 3)),
    ("loop-var", "({}|1)", "a", (1, 2, 3)),
    ("fn-name-def", "@{}|1;", "a", (1, 2, 3)),
    ("fn-name-call", "@a|1;@{};", "a", (1, 2, 3)),
    ("param-name", "@f:{}|1;", "a", (1, 2, 3)),
    ("param-name-2", "@f:a:{}|1;", "a", (1, 2, 3)),
    ("param-number", "@f:{}|1;", "0", (1, 2, 3)),
    ("lambda-arity", "λ{}|1;", "0", (1, 2, 3)),
    ("cstring", "«{}«", "a", (1, 2, 3)),
    ("cnumber", "»{}»", "a", (1, 2, 3)),
    ("codepage", "⁺{}", "a", (1,)),
    ("string-in-lambda", "λ`{}`;", "a", (1, 2)),
    ("var-in-fn", "@f|→{} 1;", "a", (1, 2)),
    ("param-in-list", "⟨@f:{}|1;⟩", "a", (1, 2)),
    ("loop-var-in-if", "[({}|1)]", "a", (1, 2)),
    ("var-digraph-mode", "→{}", "a", (1, 2)),
    # a literal followed - directly or after other elements - by a token that takes its text from the program too (a bare arrow has
    # an empty name): no text may carry over from one token to the next
    ("string-then-bare-set", "`{}`→", "a", (1, 2, 3)),
    ("string-then-bare-get", "`{}`+←", "a", (1, 2)),
    ("twochar-then-bare-set", "‛{}→", "aa", (2,)),
    ("cstring-then-bare-set", "«{}«→", "a", (1, 2)),
    ("var-then-bare-set", "1→{} 2→", "a", (1, 2)),
    ("string-then-loop", "`{}`2(|1)", "a", (1, 2)),
]
NAME_POSITIONS = {"var-get", "var-set", "loop-var", "fn-name-def", "fn-name-call", "param-name", "param-name-2", "param-number",
                  "lambda-arity", "var-in-fn", "param-in-list", "loop-var-in-if", "var-digraph-mode", "var-then-bare-set"}


def deliver(payload, how):
    if how == "literal":
        return payload
    if how == "escaped-chars":  # every payload character as a CHARACTER token
        return "".join("\\" + c for c in payload)
    if how == "string-token":   # the payload inside a STRING token (only sensible where token values are concatenated)
        return "`" + payload.replace("\\", "\\\\").replace("`", "\\`") + "`"
    raise ValueError(how)


_VOCAB = None


def names_of(tree):
    out = set()
    for node in ast.walk(tree):
        if isinstance(node, ast.Name):
            out.add(node.id)
        elif isinstance(node, ast.Attribute):
            out.add(node.attr)
        elif isinstance(node, ast.arg):
            out.add(node.arg)
        elif isinstance(node, (ast.FunctionDef, ast.AsyncFunctionDef, ast.ClassDef)):
            out.add(node.name)
        elif isinstance(node, ast.keyword) and node.arg:
            out.add(node.arg)
        elif isinstance(node, (ast.Import, ast.ImportFrom)):
            out.add("<import>")
        elif isinstance(node, (ast.Global, ast.Nonlocal)):
            out.update(node.names)
    return out


def vocabulary():
    """Fixed vocabulary: every identifier occurring in the output for a benign corpus that uses every element,
    modifier and structure once (program-chosen names in it are benign single letters and are erased)."""
    global _VOCAB
    if _VOCAB is not None:
        return _VOCAB
    sandbox.setup()
    import vyxal.elements as E

    corpus = [progs.key_text(k) for k in E.elements] + [progs.key_text(m) for m in progs.MODIFIER_ARITY]
    corpus += ["[1|2]", "[1|2|3|4]", "(1)", "(a|1)", "{1|2}", "{1}", "@a|1;", "@a:b:2:*|1;", "@a;", "λ1;", "λ2|1;", "ƛ1;", "'1;", "µ1;",
               "⟨1|2⟩", "←a", "1→a", "←", "1→", "←_a", "1→_a", "`a`", "‛aa", "\\a", "«a«", "»a»", "⁺a", "1.5", "1°2", "(X)", "(x)",
               "λX;", "λx;", "@a|X;", "@a|x;", "vx", "X", "x", "[X]", "[x]"]
    vocab = set()
    for p in corpus:
        try:
            tree = ast.parse(sandbox.transpile(p))
        except Exception:
            continue
        for n in names_of(tree):
            if not SANCTIONED.match(n):
                vocab.add(n)
    _VOCAB = vocab
    return vocab


class Eraser(ast.NodeTransformer):
    def visit_Constant(self, node):
        return ast.copy_location(ast.Constant(value="C"), node)

    def visit_UnaryOp(self, node):
        # a negative number constant is written -<constant> in the Python AST: still a constant (`»é»` lowers to stack.append(-1))
        if isinstance(node.op, (ast.USub, ast.UAdd)) and isinstance(node.operand, ast.Constant) and isinstance(node.operand.value, (int, float, complex)):
            return ast.copy_location(ast.Constant(value="C"), node)
        self.generic_visit(node)
        return node

    def visit_Name(self, node):
        if SANCTIONED.match(node.id):
            node.id = "ID"
        return node

    def visit_Attribute(self, node):
        self.generic_visit(node)
        if SANCTIONED.match(node.attr):
            node.attr = "ID"
        return node

    def visit_arg(self, node):
        if SANCTIONED.match(node.arg):
            node.arg = "ID"
        return node

    def visit_FunctionDef(self, node):
        self.generic_visit(node)
        if SANCTIONED.match(node.name):
            node.name = "ID"
        return node

    def visit_JoinedStr(self, node):
        return node


def erased(code):
    tree = ast.parse(code)
    tree = Eraser().visit(tree)
    return ast.dump(tree, annotate_fields=False)


def parse_shape(program, var_digraphs=False):
    """structure tree with every literal value AND every program-chosen name erased"""
    from vyxal.lexer import Token, tokenise
    from vyxal.parse import parse
    from vyxal.structure import Structure

    def sh(x):
        if isinstance(x, Token):
            return ("T", x.name.value, x.value if x.name.value == "general" else None)
        if isinstance(x, Structure):
            par = getattr(x, "parent_structure", None)
            return (type(x).__name__, getattr(x, "modifier", None), getattr(par, "__name__", par), tuple(sh(b) for b in x.branches))
        if isinstance(x, (list, tuple)):
            return ("seq", len(x), tuple(sh(b) for b in x))
        if isinstance(x, type):
            return x.__name__
        if isinstance(x, str):
            return "NUM" if x.isnumeric() else ("STAR" if x == "*" else ("EMPTY" if x == "" else ("CTXNAME" if x[0] == "_" else "NAME")))
        return "V"

    return sh(sandbox.parse(sandbox.tokenise(program, var_digraphs)))


def judge(part, program, benign_program, where, var_digraphs=False):
    """where: dict describing the case (for reporting)."""
    part.count()
    try:
        code = sandbox.transpile(program, True, var_digraphs)
    except BaseException as e:  # noqa  - no code returned: nothing to judge
        if isinstance(e, KeyboardInterrupt):
            raise
        part.skip("transpiler raises (no code returned)")
        return
    part.nontriv()
    tags = {"position": where.get("position", "raw"), "delivery": where.get("delivery", "raw")}
    size = len(program)
    try:
        tree = ast.parse(code)
    except SyntaxError as e:
        # unparsable output: only a finding if the benign twin parses (i.e. the payload broke out of its slot)
        ok_benign = True
        if benign_program is not None:
            b0 = benign_program[0] if isinstance(benign_program, list) else benign_program
            try:
                ast.parse(sandbox.transpile(b0, True, var_digraphs))
            except Exception:
                ok_benign = False
        if ok_benign:
            part.violation("inject", dict(where, program=program), "generated Python does not parse (payload escaped its slot)",
                           dict(tags, what="SyntaxError: " + str(e.msg)), "ast.parse succeeds",
                           "%s at line %s: %s" % (e.msg, e.lineno, (e.text or "").strip()[:80]), size=size)
        return
    vocab = vocabulary()
    foreign = sorted(n for n in names_of(tree) if n not in vocab and not SANCTIONED.match(n))
    part.outcome((tags["position"], bool(foreign)))
    if foreign:
        part.violation("inject", dict(where, program=program), "identifier outside the fixed vocabulary in the generated Python",
                       dict(tags, what="foreign identifier"), "only template identifiers and VAR_/_lambda_ names", foreign[:6], size=size)
        return
    if benign_program is not None:
        twins = benign_program if isinstance(benign_program, list) else [benign_program]
        try:
            shape = parse_shape(program, var_digraphs)
        except Exception:
            return
        same = []
        for t in twins:
            try:
                if parse_shape(t, var_digraphs) == shape:
                    same.append(t)
            except Exception:
                pass
        if same:
            a = erased(code)
            allowed = set()
            for t in twins:  # any documented reading of a name (plain, empty = ghost variable, _x = context attribute, number, *)
                try:
                    allowed.add(erased(sandbox.transpile(t, True, var_digraphs)))
                except Exception:
                    pass
            if a not in allowed:
                ref = sandbox.transpile(same[0], True, var_digraphs).splitlines()
                part.violation("inject", dict(where, program=program, benign=same[0]),
                               "generated Python differs from every benign twin in more than constants and sanctioned identifiers",
                               dict(tags, what="structure differs"), "erased AST of one of the benign twins",
                               [l for l in code.splitlines() if l not in ref][:3], size=size)


FAMILY = ["a", "", "_a", "_", "0", "2", "1.5", ".5", "*", "aa", "a_0", "A", "a:a", "a:2", "2:a", "a:*"]


def _pos_shard(args):
    positions, maxlen = args
    part = explore.Partial()
    for name, tmpl, benign, lengths in positions:
        hows = ["literal"] + (["escaped-chars", "string-token"] if name in NAME_POSITIONS else [])
        dg = name == "var-digraph-mode"
        for n in lengths:
            if n > maxlen:
                continue
            for p in itertools.product(ALPHABET, repeat=n):
                payload = "".join(p)
                for how in hows:
                    prog = tmpl.format(deliver(payload, how))
                    # benign twins: the payload with its adversarial characters deleted / replaced by a letter
                    keep = "abcdefghijklmnopqrstuvwxyzABCDEFGHIJKLMNOPQRSTUVWXYZ0123456789_.:*"
                    fam = ["".join(c for c in payload if c in keep), "".join(c if c in keep else "a" for c in payload),
                           "".join(c if c in keep else " " for c in payload)]
                    ben = [tmpl.format(deliver(b, how)) for b in fam]
                    judge(part, prog, ben, {"position": name, "payload": payload, "delivery": how}, dg)
    return part.data()


def _raw_shard(args):
    firsts, maxlen = args
    part = explore.Partial()
    for f in firsts:
        for n in range(0, maxlen):
            for rest in itertools.product(ALPHABET, repeat=n):
                judge(part, f + "".join(rest), None, {"position": "raw", "delivery": "raw"})
    return part.data()


def _dict_shard(codes):
    """dictionary-compression codes inside a back-quoted string: the decompressed WORD is program-chosen text too"""
    part = explore.Partial()
    for code in codes:
        for tail in ("", "+a)#", "a"):
            prog = "`" + code + tail + "`"
            judge(part, prog, ["`a" + tail + "`", "`aa`"], {"position": "string-dictionary-code", "payload": code + tail, "delivery": "literal"})
    return part.data()


def run(tier, seed):
    rep = Report(PROP, tier, seed, "exploration")
    quick = tier == "quick"
    vocabulary()
    import vyxal.encoding as enc

    comp = list(enc.compression)
    codes = comp + [a + b for a in comp for b in (comp if not quick else comp[::4])]
    explore.pmap(_dict_shard, explore.chunks(codes, 64), rep, seed)
    maxlen = 2 if quick else 3
    explore.pmap(_pos_shard, [([p], maxlen) for p in POSITIONS], rep, seed)
    rawlen = 3 if quick else 4
    explore.pmap(_raw_shard, [([c], rawlen) for c in ALPHABET], rep, seed)
    rep.extra["allow_skips"] = True
    rep.extra["vocabulary_size"] = len(vocabulary())
    rep.extra["positions"] = [p[0] + " " + p[1] for p in POSITIONS]
    rep.rule = ("all payloads of length <=%d over the %d-character adversarial alphabet at %d positions (name positions also delivered "
                "as escaped characters and as a string token); all raw strings of length <=%d as whole programs. Oracle when code is "
                "returned: it parses; every identifier is in the fixed vocabulary (collected from a benign corpus using every element, "
                "modifier and structure) or matches ^(VAR_|_lambda_)[A-Za-z0-9_]*$; if the payload leaves the parse shape unchanged the "
                "erased AST equals the benign twin's. Non-trivial = transpile returned code; each program is distinct."
                % (maxlen, len(ALPHABET), len(POSITIONS), rawlen))
    rep.sample({"position": "param-name", "delivery": "escaped-chars", "program": "@f:\\[\\a\\]|1;"})
    rep.sample({"position": "string", "program": "`\\\"`"})
    rep.sample({"position": "raw", "program": "@a:"})
    rep.assumptions = ["ast.parse of the generated code", "vocabulary = identifiers of the benign corpus output"]
    return rep


def replay(art):
    c = art["case"]
    part = explore.Partial()
    judge(part, c["program"], [c["benign"]] if c.get("benign") else None, {"position": c.get("position", "raw"), "delivery": c.get("delivery", "raw")},
          c.get("position") == "var-digraph-mode")
    return part.d["violations"] or None
