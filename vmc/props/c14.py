"""C14 - finite prefixes of infinite lists are computed lazily and terminate. (E), exhaustive.

Termination is decided by FUEL: the instrumented infinite source raises PullBudgetExceeded past its
budget; a SIGALRM backstop exists only for pure-CPU loops and is reported as a cap."""
from __future__ import annotations

import itertools

from vmc.core import explore, sandbox
from vmc.core.report import Report

PROP = "C14"


class PullBudgetExceeded(Exception):
    pass


KIND = ["powers"]   # which source the current case runs on: "powers" = 2,4,8,... (distinct, truthy, no two differences equal);
#                      "counting" = 1,2,3,... (arithmetic: its differences are constant, its second differences are all zero)


def item(i):
    return 2 ** i if KIND[0] == "powers" else i


class Source:
    def __init__(self, budget):
        self.pulls = 0
        self.budget = budget

    def gen(self):
        i = 1
        while True:
            if self.pulls >= self.budget:
                raise PullBudgetExceeded(self.pulls)
            self.pulls += 1
            yield item(i)
            i += 1


def infinite(budget):
    from vyxal.LazyList import LazyList

    s = Source(budget)
    return LazyList(s.gen(), isinf=True), s


def finite(n):
    from vyxal.LazyList import LazyList

    return LazyList(iter([item(i) for i in range(1, n + 1)]))


def _E():
    import vyxal.elements as E

    return E


def box(x):
    """total on every item type"""
    return [x]


def alternating():
    """position-based predicate (keeps the 1st, 3rd, ... item): density 1/2 whatever the values are"""
    state = [0]

    def pred(x):
        state[0] += 1
        return state[0] % 2

    return pred


def pair(x):
    return [x, x]


# name -> (transformation(L, ctx) -> lazy result, a, b, flags): producing m items of the result (or the item at
# index m, counted as m+1 items) pulls at most a*m + b items from L.  Bounds were measured once and are FIXED here.
# flags: "vd" = value dependent (its output rate depends on the values: bound holds on streams of distinct truthy items);
#        "ni" = not injective (may map distinct items to equal / falsy ones)
def catalogue():
    E = _E()
    return {
        "map(M)": (lambda L, c: E.vy_map(L, box, c), 1, 0, ""),
        "filter(F) alternating": (lambda L, c: E.vy_filter(L, alternating(), c), 2, 0, ""),
        "zip(Z) with self copy": (lambda L, c: E.vy_zip(L, sandbox_deep_copy(L), c), 1, 0, ""),
        "zip(Z) with finite": (lambda L, c: E.vy_zip(L, [7, 8], c), 1, 0, ""),
        "interleave(Y) with finite": (lambda L, c: E.interleave(L, [7, 8, 9], c), 1, 0, ""),
        "interleave(Y) finite first": (lambda L, c: E.interleave([7, 8, 9], L, c), 1, 0, ""),
        "prefixes(K)": (lambda L, c: E.divisors_or_prefixes(L, c), 1, 0, ""),
        "cumulative sums(¦)": (lambda L, c: E.cumulative_sum(L, c), 1, 1, ""),
        "deltas(¯)": (lambda L, c: E.deltas(L, c), 1, 1, ""),
        "windows(l 2)": (lambda L, c: E.overlapping_groups(L, 2, c), 1, 1, ""),
        "windows(l 3)": (lambda L, c: E.overlapping_groups(L, 3, c), 1, 2, ""),
        "chunks(ẇ 2)": (lambda L, c: E.wrap(L, 2, c), 2, 0, ""),
        "flatten(f) of pairs": (lambda L, c: E.deep_flatten(E.vy_map(L, pair, c), c), 1, 0, "ni"),
        "uniquify(U)": (lambda L, c: E.uniquify(L, c), 1, 0, "vd"),
        "enumerate(ė)": (lambda L, c: E.vy_enumerate(L, c), 1, 0, ""),
        "prepend(p 0)": (lambda L, c: E.prepend(L, 0, c), 1, 0, "ni"),
        "append(J 0)": (lambda L, c: E.merge(L, 0, c), 1, 0, ""),
        "merge(J) finite first": (lambda L, c: E.merge([7, 8], L, c), 1, 0, ""),
        "slice from(ȯ 2)": (lambda L, c: E.slice_from(L, 2, c), 1, 3, ""),
        "add scalar(+ 1)": (lambda L, c: E.add(L, 1, c), 1, 0, ""),
        "multiply scalar(* 2)": (lambda L, c: E.multiply(L, 2, c), 1, 0, ""),
        "negate(N)": (lambda L, c: E.negate(L, c), 1, 0, ""),
        "halve(½)": (lambda L, c: E.halve(L, c), 1, 0, ""),
        "less than(< 3)": (lambda L, c: E.less_than(L, 3, c), 1, 0, "ni"),
        "add two lists(+)": (lambda L, c: E.add(L, [10, 20], c), 1, 0, "ni"),
        "head remove(Ḣ)": (lambda L, c: E.head_remove(L, c), 1, 2, ""),
        "every 2nd(Ḟ 2)": (lambda L, c: E.gen_from_fn(L, 2, c), 2, 0, ""),
        "remove at index(⟇ 1)": (lambda L, c: E.remove_at_index(L, 1, c), 1, 1, ""),
        "insert(Ṁ 1 0)": (lambda L, c: E.insert_or_map_nth(L, 1, 0, c), 1, 0, "ni"),
        "map every 2nd(Ṁ 2 fn)": (lambda L, c: E.insert_or_map_nth(L, 2, box, c), 1, 0, ""),
        "apply to every other(ẇ fn)": (lambda L, c: E.wrap(L, box, c), 1, 0, ""),
        "group consecutive(Ġ)": (lambda L, c: E.group_consecutive(L, c), 1, 1, "vd"),
        "union(∪) with finite": (lambda L, c: E.union(L, [1, 99], c), 1, 0, "vd"),
        "deep copy": (lambda L, c: sandbox_deep_copy(L), 1, 0, ""),
        "sublists(ÞS)": (lambda L, c: E.sublists(L, c), 1, 1, ""),
        "powerset(ṗ)": (lambda L, c: E.powerset(L, c), 1, 1, "ni"),
        "cartesian product(Ẋ) with finite": (lambda L, c: E.cartesian_product(L, [1, 2], c), 1, 2, ""),
        "uninterleave(y) evens": (lambda L, c: E.uninterleave(L, c)[0], 2, 0, ""),
        "slice from 1 step 2 (index)": (lambda L, c: E.index(L, [1, None, 2], c), 2, 2, ""),
        "truthy indices(T)": (lambda L, c: E.truthy_indices(L, c), 1, 1, "vd"),
        # the infinite list as the SECOND operand: remove from a finite list what occurs in the (increasing) infinite one
        "filter out(F) members of the infinite list": (lambda L, c: E.vy_filter([3, 4, 6, 8, 9, 12], L, c), 0, 8, "src ni nodiff"),
        "contains(c) probes": (lambda L, c: E.vy_map([3, 4, 12], (lambda x: E.contains(L, x, c)), c), 0, 8, "src ni nodiff"),
        "zip(Z) finite first": (lambda L, c: E.vy_zip([7, 8], L, c), 1, 0, ""),
        "interleave(Y) with a string": (lambda L, c: E.interleave(L, "ab", c), 1, 0, "ni"),
    }


def well_defined(names, cat):
    """A value-dependent stage is only judged on a stream of distinct truthy items."""
    dirty = False
    linear = False  # the stream is an arithmetic progression (indices): its deltas are constant
    for pos, nm in enumerate(names):
        fl = cat[nm][3]
        if "src" in fl and pos > 0:
            return False  # needs the increasing integer source itself (membership search on an infinite list)
        if "vd" in fl and dirty:
            return False
        if "ni" in fl:
            dirty = True
        if nm.startswith("deltas") and linear:
            dirty = True
        linear = nm.startswith("truthy indices") or (linear and nm in ("deep copy", "add scalar(+ 1)", "multiply scalar(* 2)",
                                                                       "negate(N)", "halve(½)", "head remove(Ḣ)", "slice from(ȯ 2)"))
    return True


def sandbox_deep_copy(L):
    from vyxal.helpers import deep_copy

    return deep_copy(L)


def compose_bound(names, cat, need):
    """items needed from the source to produce `need` items of the pipeline names[0] ; names[1] ; ..."""
    for nm in reversed(names):
        a, b = cat[nm][1], cat[nm][2]
        need = a * need + b
    return need


def take(res, n, mode):
    from vyxal.LazyList import LazyList

    if mode == "slice":
        out = res[0:n] if isinstance(res, LazyList) else res[0:n]
        return sandbox.pyval(out, limit=4096)
    if mode == "getitem":
        # the item at index n through real indexing (what the index element does)
        if isinstance(res, LazyList):
            if not res.has_ind(n):
                return ("no item",)
            return sandbox.pyval(res[n])
        return sandbox.pyval(res[n]) if n < len(res) else ("no item",)
    # item at index n
    if isinstance(res, LazyList):
        if not res.has_ind(n):
            return ("no item",)
        return sandbox.pyval(res.generated[n])
    return sandbox.pyval(res[n]) if n < len(res) else ("no item",)


def run_pipeline(names, n, mode, cat):
    """Returns (status, pulls, value). status in ok / budget / raises:<T> / timeout"""
    need = n if mode == "slice" else n + 1
    fresh_getitem = mode == "getitem"
    bound = compose_bound(names, cat, need)
    budget = 4 * bound + 64
    L, src = infinite(budget)
    ctx = sandbox.fresh_ctx()
    try:
        with sandbox.watchdog(5.0):
            res = L
            for nm in names:
                res = cat[nm][0](res, ctx)
            if mode == "getitem" and hasattr(res, "generated"):
                # index straight into the freshly built result (nothing cached yet), like `n i` does on a copy
                val = sandbox.pyval(res[n]) if True else None
            else:
                val = take(res, n, mode)
        return "ok", src.pulls, val, bound, budget
    except PullBudgetExceeded:
        return "budget", src.pulls, None, bound, budget
    except sandbox.CaseTimeout:
        return "timeout", src.pulls, None, bound, budget
    except BaseException as e:  # noqa
        if isinstance(e, KeyboardInterrupt):
            raise
        return "raises:" + type(e).__name__, src.pulls, str(e)[:80], bound, budget


def run_twin(names, n, mode, cat, size):
    ctx = sandbox.fresh_ctx()
    try:
        with sandbox.watchdog(5.0):
            res = finite(size)
            for nm in names:
                res = cat[nm][0](res, ctx)
            return "ok", take(res, n, mode)
    except BaseException as e:  # noqa
        if isinstance(e, KeyboardInterrupt):
            raise
        return "raises:" + type(e).__name__, None


def check(part, names, n, mode, cat):
    status, pulls, val, bound, budget = run_pipeline(names, n, mode, cat)
    part.count()
    part.outcome((names[-1], status, min(pulls, 50)))
    case = {"pipeline": list(names), "n": n, "take": mode, "source": KIND[0]}
    tags = {"last": names[-1], "first": names[0], "take": mode, "depth": len(names), "source": KIND[0]}
    size = len(names) * 1000 + n
    if status == "timeout":
        part.cap("watchdog (pure CPU loop?) " + " ; ".join(names) + " n=%d" % n)
        part.violation("lazy", case, "taking a finite prefix did not terminate (watchdog)", tags, "returns", status, size=size)
        return
    if status == "budget":
        # Does the prefix exist at all within the budget?  The same pipeline on a FINITE list of `budget` items decides:
        # if even that cannot deliver the requested items, the pipeline needs unboundedly many source items by definition
        # (e.g. uniquify of a constant stream) - out of domain.  A transformation that merely forces its input still
        # delivers on the finite twin, so it is still reported.
        # Only a VALUE-DEPENDENT stage (flags vd / src) can legitimately lack the prefix; for every other pipeline the output rate does
        # not depend on the values, so the twin (which runs the same library code) is not consulted.
        value_dependent = any(("vd" in cat[nm][3] or "src" in cat[nm][3]) for nm in names)
        tstatus, tval = run_twin(names, n, mode, cat, budget) if value_dependent else ("not consulted", None)
        short = tstatus == "ok" and ((mode == "slice" and isinstance(tval, list) and len(tval) < n) or tval == ("no item",))
        if short:
            part.skip("the requested prefix does not exist within the fuel budget even on a finite list (value-dependent pipeline)")
            return
        part.violation("lazy", case, "taking a finite prefix forces the source past its fuel budget (non-termination on an infinite list)",
                       tags, "pulls <= %d" % bound, "more than %d pulls" % budget, size=size)
        return
    if status.startswith("raises") and KIND[0] == "counting":
        # on the arithmetic source halving yields non-integers, and e.g. subtracting a rational from a string is a type error of the
        # element arithmetic, not of laziness: when the same pipeline raises the same way on the finite list, the pipeline is ill-typed
        # for this source (out of domain)
        tstatus, _ = run_twin(names, n, mode, cat, max(8, 2 * bound + 8))
        if tstatus == status:
            part.skip("ill-typed pipeline for the arithmetic source (raises identically on a finite list)")
            return
    if status.startswith("raises"):
        part.violation("lazy", case, "taking a finite prefix raises", dict(tags, exc=status), "returns", status + ": " + str(val), size=size)
        return
    if pulls > bound:
        part.violation("lazy", case, "more items pulled from the source than the fixed linear bound",
                       tags, "pulls <= %d" % bound, "%d pulls" % pulls, size=size)
        return
    if any("nodiff" in cat[nm][3] for nm in names):
        # membership on an infinite list is a monotone search whose answer depends on what is already cached; what it answers is
        # not this property's business (only that it terminates within the bound)
        return
    # differential oracle: the same pipeline on a finite list long enough to contain everything that was pulled
    tstatus, tval = run_twin(names, n, mode, cat, budget)
    if tstatus != "ok" or tval != val:
        part.violation("lazy", case, "prefix differs from the same pipeline on a finite list",
                       tags, tval if tstatus == "ok" else tstatus, val, size=size)


def _shard(args):
    pipelines, ns = args
    part = explore.Partial()
    cat = catalogue()
    for names in pipelines:
        if not well_defined(names, cat):
            part.skip("value-dependent stage after a non-injective one: the prefix need not exist", len(ns) * 3)
            continue
        for n in ns:
            for mode in ("slice", "index", "getitem"):
                check(part, names, n, mode, cat)
        # the arithmetic source 1,2,3,... (constant differences, zero second differences, repeated / falsy items downstream): only for
        # pipelines whose output rate cannot depend on the values
        if not any(("vd" in cat[nm][3] or "src" in cat[nm][3]) for nm in names):
            KIND[0] = "counting"
            try:
                for n in [k for k in ns if k in (0, 1, 2, 5, 17)]:
                    for mode in ("slice", "getitem"):
                        check(part, names, n, mode, cat)
            finally:
                KIND[0] = "powers"
        part.nontriv()
    return part.data()


def run(tier, seed):
    rep = Report(PROP, tier, seed, "exploration")
    cat = catalogue()
    names = list(cat)
    pipes = [(a,) for a in names] + [(a, b) for a in names for b in names]
    ns_all = list(range(0, 41))
    explore.pmap(_shard, [(c, ns_all) for c in explore.chunks(pipes, 128)], rep, seed)
    if tier == "thorough":
        p3 = [(a, b, c) for a in names for b in names for c in names]
        explore.pmap(_shard, [(c, [0, 1, 2, 3, 5, 8, 13, 21, 40]) for c in explore.chunks(p3, 256)], rep, seed)
    else:
        core = [n for n in names if n in ("map(M)", "filter(F) alternating", "windows(l 2)", "chunks(ẇ 2)", "slice from(ȯ 2)",
                                          "head remove(Ḣ)", "prefixes(K)", "flatten(f) of pairs", "cumulative sums(¦)", "deep copy", "deltas(¯)")]
        p3 = [(a, b, c) for a in core for b in core for c in core]
        explore.pmap(_shard, [(c, [0, 1, 2, 5, 17]) for c in explore.chunks(p3, 64)], rep, seed)
    rep.extra["catalogue"] = {k: "pulls(m) <= %d*m + %d %s" % (v[1], v[2], v[3]) for k, v in cat.items()}
    rep.rule = ("%d catalogued transformations; all compositions of length 1 and 2 for ALL n in 0..40, taking the prefix by [0:n] and by "
                "[n]; compositions of length 3 (%s) for selected n. Source: instrumented infinite generator (2,4,8,...; and 1,2,3,... for pipelines without a value-dependent stage, n in {0,1,2,5,17}) that counts pulls and "
                "raises past 4*bound+64 (fuel, not time). Oracles: returns; pulls <= composed fixed linear bound; equals the same "
                "pipeline on a finite list. distinct_nontrivial = distinct pipelines." % (
                    len(cat), "all" if tier == "thorough" else "over 11 core transformations incl. deltas (whose second application yields a constant-zero stream)"))
    rep.sample({"pipeline": ["filter(F) alternating", "windows(l 2)"], "n": 5, "take": "slice", "bound": compose_bound(["filter(F) alternating", "windows(l 2)"], cat, 5)})
    rep.sample({"pipeline": ["prefixes(K)"], "n": 40, "take": "index"})
    rep.sample({"pipeline": ["map(M)", "chunks(ẇ 2)", "head remove(Ḣ)"], "n": 17, "take": "slice"})
    rep.assumptions = ["per-transformation linear bounds are constants fixed in the check source",
                       "a pure-CPU loop is caught by a 5 s SIGALRM backstop and reported as a cap + violation"]
    return rep


def replay(art):
    c = art["case"]
    part = explore.Partial()
    KIND[0] = c.get("source", "powers")
    check(part, tuple(c["pipeline"]), c["n"], c["take"], catalogue())
    return part.d["violations"] or None
