"""C15 - compression and base-conversion codecs round-trip. (E), exhaustive."""
from __future__ import annotations

import itertools
import string

from vmc.core import explore, sandbox
from vmc.core.report import Report

PROP = "C15"


def run_text(text):
    r = sandbox.run_program(text, timeout=30)
    if r.exc is not None:
        return "raises %s: %s" % (type(r.exc).__name__, str(r.exc)[:60])
    return r.stack


def plain(v):
    import sympy

    if isinstance(v, sympy.Integer):
        return int(v)
    return v


def magnitude(n):
    return "1e%d" % (len(str(n)) - 1)


def _num_shard(ns):
    import vyxal.elements as E

    part = explore.Partial()
    ctx = sandbox.fresh_ctx()
    for n in ns:
        part.count()
        part.nontriv()
        try:
            with sandbox.watchdog(30):
                text = E.base_255_number_compress(n, ctx)
            got = run_text(text)
        except BaseException as e:  # noqa
            if isinstance(e, KeyboardInterrupt):
                raise
            text, got = None, "compress raises %s: %s" % (type(e).__name__, str(e)[:60])
        ok = isinstance(got, list) and len(got) == 1 and plain(got[0]) == n and isinstance(plain(got[0]), int)
        part.outcome(len(text) if text else -1)
        if not ok:
            part.violation("number", {"n": n, "compressed": text}, "number compression does not round-trip",
                           {"what": got if isinstance(got, str) else "wrong value", "payload": (text or "")[1:-1][:3]},
                           n, got if isinstance(got, str) else [str(x) for x in got], size=len(str(n)))
    part.section("number_compression", cases=len(ns))
    return part.data()


def _str_shard(ss):
    import vyxal.elements as E

    part = explore.Partial()
    ctx = sandbox.fresh_ctx()
    for s in ss:
        part.count()
        part.nontriv()
        try:
            with sandbox.watchdog(30):
                text = E.base_255_string_compress(s, ctx)
            got = run_text(text)
        except BaseException as e:  # noqa
            if isinstance(e, KeyboardInterrupt):
                raise
            text, got = None, "compress raises %s: %s" % (type(e).__name__, str(e)[:60])
        ok = isinstance(got, list) and got == [s]
        part.outcome(len(text) if text else -1)
        if not ok:
            part.violation("string", {"s": s, "compressed": text}, "string compression does not round-trip",
                           {"what": got if isinstance(got, str) else "wrong value"},
                           s, got if isinstance(got, str) else [repr(x) for x in got], size=len(s))
    part.section("string_compression", cases=len(ss))
    return part.data()


def _dict_shard(ss):
    import vyxal.elements as E

    part = explore.Partial()
    ctx = sandbox.fresh_ctx()
    for s in ss:
        part.count()
        part.nontriv()
        try:
            with sandbox.watchdog(30):
                text = E.optimal_compress(s, ctx)
            got = run_text(text)
        except BaseException as e:  # noqa
            if isinstance(e, KeyboardInterrupt):
                raise
            text, got = None, "compress raises %s: %s" % (type(e).__name__, str(e)[:60])
        ok = isinstance(got, list) and got == [s]
        part.outcome((len(text) - len(s)) if text else -99)
        if not ok:
            part.violation("dict", {"s": s, "compressed": text}, "dictionary compression does not round-trip",
                           {"what": got if isinstance(got, str) else "wrong value"},
                           s, got if isinstance(got, str) else [repr(x) for x in got], size=len(s))
        elif len(text) > len(s) + 2:
            part.violation("dict", {"s": s, "compressed": text}, "dictionary compression is longer than the plain literal",
                           {}, len(s) + 2, len(text), size=len(s))
    part.section("dictionary_compression", cases=len(ss))
    return part.data()


def _cross_shard(bodies):
    """two-step histories in ONE process: literals of different kinds with the SAME body text, one after the other (a
    decompression result must depend on the kind of the literal, not only on its text)"""
    import vyxal.encoding as enc

    part = explore.Partial()

    # the expected values are computed HERE (positional notation over the documented alphabets), not with the library's helpers:
    # a helper that remembers something between calls would otherwise be wrong on both sides
    def value(body, alphabet):
        n = 0
        for ch in body:
            n = n * len(alphabet) + alphabet.index(ch)
        return n

    def expect(kind, body):
        if kind == "cnumber":
            return value(body, enc.codepage_number_compress)
        if kind == "cstring":
            n, out = value(body, enc.codepage_string_compress), ""
            while n:
                n, d = divmod(n, 27)
                out = enc.base_27_alphabet[d] + out
            return out or enc.base_27_alphabet[0]
        return None

    wrap = {"cnumber": "»%s»", "cstring": "«%s«", "string": "`%s`"}
    import itertools as it

    for body in bodies:
        for k1, k2 in it.permutations(("cnumber", "cstring", "string"), 2):
            if k2 == "string":
                continue  # the value of a plain string depends on dictionary decompression: compare the two codecs only
            want = expect(k2, body)
            run_text(wrap[k1] % body)
            got = run_text(wrap[k2] % body)
            part.count()
            part.nontriv()
            ok = isinstance(got, list) and len(got) == 1 and plain(got[0]) == want
            if not ok:
                part.violation("cross", {"first": wrap[k1] % body, "then": wrap[k2] % body},
                               "a compressed literal evaluates differently after another literal with the same text",
                               {"first_kind": k1, "then_kind": k2}, want, got if isinstance(got, str) else [str(x) for x in got], size=len(body))
    part.section("cross_kind_histories", cases=part.d["evaluations"])
    return part.data()


def _mixed_shard(args):
    """histories of round trips through DIFFERENT codecs in one freshly forked process, in a given order (whatever one codec
    leaves behind in the process must not change what another one decodes)"""
    import vyxal.elements as E

    order, nums, strs, dstrs = args
    part = explore.Partial()
    ctx = sandbox.fresh_ctx()
    work = {"N": [("N", n) for n in nums], "S": [("S", s) for s in strs], "D": [("D", s) for s in dstrs]}
    if order == "interleaved":
        seq = [x for t in itertools.zip_longest(work["N"], work["S"], work["D"]) for x in t if x is not None]
    else:
        seq = [x for k in order for x in work[k]]
    fn = {"N": E.base_255_number_compress, "S": E.base_255_string_compress, "D": E.optimal_compress}
    for kind, v in seq:
        part.count()
        part.nontriv()
        try:
            with sandbox.watchdog(30):
                text = fn[kind](v, ctx)
            got = run_text(text)
        except BaseException as e:  # noqa
            if isinstance(e, KeyboardInterrupt):
                raise
            text, got = None, "compress raises %s: %s" % (type(e).__name__, str(e)[:60])
        ok = isinstance(got, list) and len(got) == 1 and plain(got[0]) == v and type(plain(got[0])) is type(v)
        part.outcome((kind, len(text) if text else -1))
        if not ok:
            part.violation("mixed", {"order": order, "kind": kind, "value": v, "compressed": text},
                           "a codec does not round-trip after another codec has been used in the same process",
                           {"order": order, "kind": kind}, v, got if isinstance(got, str) else [repr(x) for x in got], size=len(str(v)))
    part.section("mixed_codec_histories", cases=len(seq))
    return part.data()


def _base_shard(args):
    import vyxal.elements as E

    part = explore.Partial()
    ctx = sandbox.fresh_ctx()
    for b, ns in args:
        for n in ns:
            part.count()
            part.nontriv()
            try:
                with sandbox.watchdog(30):
                    digits = E.to_base(n, b, ctx)
                    dl = list(digits)
                    back = E.from_base(digits, b, ctx)
                ok = all(isinstance(plain(d), int) and 0 <= d < b for d in dl) and plain(back) == n and len(dl) >= 1
                obs = {"digits": [str(d) for d in dl][:12], "back": str(back)}
            except BaseException as e:  # noqa
                if isinstance(e, KeyboardInterrupt):
                    raise
                ok, obs = False, "raises %s: %s" % (type(e).__name__, str(e)[:60])
            part.outcome(("len", len(dl) if ok else -1))
            if not ok:
                cls = "zero" if n == 0 else ("power" if any(b ** k == n for k in range(1, 80)) else "other")
                part.violation("base", {"n": n, "base": b}, "base conversion does not round-trip",
                               {"what": obs if isinstance(obs, str) else "wrong digits/value", "n_class": cls},
                               n, obs, size=len(str(n)) + b)
    part.section("base_conversion", cases=sum(len(ns) for _, ns in args))
    return part.data()


BOUNDARY_WORDS = ["the", "The", "a", "I", "of", "and", "Hello", "World", "hello", "world"]


def run(tier, seed):
    rep = Report(PROP, tier, seed, "exploration")
    quick = tier == "quick"
    sandbox.setup()
    import vyxal.dictionary as D

    # numbers
    N = 100000 if quick else 2000000
    nums = list(range(1, N + 1))
    fam = sorted({255 ** k + d for k in range(1, 51 if not quick else 30) for d in (-1, 0, 1)} |
                 {10 ** k + d for k in range(4, 121 if not quick else 40) for d in (-1, 0, 1)})
    explore.pmap(_num_shard, explore.chunks(nums + fam, 128), rep, seed)
    # strings over [a-z ] not starting with a space
    alpha = string.ascii_lowercase + " "
    L = 3 if quick else 4
    strs = ["".join(p) for n in range(1, L + 1) for p in itertools.product(alpha, repeat=n) if p[0] != " "]
    sfam = []
    for k in range(1, 40 if quick else 85):
        sfam += ["z" * k, "a" + " " * k, "b" + "a" * k, "a" * k + " "]
    explore.pmap(_str_shard, explore.chunks(strs + sfam, 128), rep, seed)
    # dictionary compression
    ascii_ok = [c for c in string.printable[:95] if c not in "\\`"]
    dstr = ["".join(p) for n in range(0, 3) for p in itertools.product(ascii_ok, repeat=n)]
    if not quick:
        dstr += ["".join(p) for p in itertools.product(ascii_ok, repeat=3)]
    else:
        dstr += ["".join(p) for p in itertools.product("aT .\n9", repeat=3)]
    words = list(dict.fromkeys(list(D.contents[:150 if not quick else 60]) + BOUNDARY_WORDS))
    words = [w for w in words if "\\" not in w and "`" not in w]
    for w1 in words:
        dstr.append(w1)
        for w2 in words:
            for sep in ("", " ", ", "):
                dstr.append(w1 + sep + w2)
    # every word of the dictionary on its own (each has its own one- or two-character code), and after "a " / before " a"
    allw = [w for w in D.contents if "\\" not in w and "`" not in w]
    dstr += allw + ["a " + w for w in allw[::1 if not quick else 7]] + [w + " a" for w in allw[::1 if not quick else 7]]
    dstr = list(dict.fromkeys(dstr))
    explore.pmap(_dict_shard, explore.chunks(dstr, 128), rep, seed)
    # cross-kind histories
    sandbox.setup()
    import vyxal.encoding as enc

    shared = [c for c in enc.codepage if c not in "«»`\\" and c in enc.codepage_number_compress and c in enc.codepage_string_compress]
    bodies = shared + [a + b for a in shared[:40] for b in shared[:40]]
    explore.pmap(_cross_shard, explore.chunks(bodies, 32), rep, seed)
    # mixed-codec histories, each in a freshly forked process: every order of (numbers, strings, dictionary strings) + interleaved
    mn = list(range(1, 1501)) + [255 ** 2 + d for d in range(0, 12)] + [255 ** 3 + 9 * 255 + 10]
    ms = [a + b for a in alpha for b in ("",) + tuple(alpha) if a != " "]
    md = ["".join(p_) for n_ in (1, 2) for p_ in itertools.product("aT .\n9~", repeat=n_)] + words[:40]
    orders = ["".join(o) for o in itertools.permutations("NSD")] + ["interleaved"]
    explore.pmap(_mixed_shard, [(o, mn, ms, md) for o in orders], rep, seed, fresh=True)
    # base conversion
    bases = list(range(2, 301))
    work = []
    for b in bases:
        ns = set(range(0, 301 if not quick else 41))
        for k in range(1, 12 if not quick else 7):
            for d in (-1, 0, 1):
                ns.add(b ** k + d)
        work.append((b, sorted(ns)))
    explore.pmap(_base_shard, [c for c in explore.chunks(work, 64)], rep, seed)
    rep.rule = ("number compression: all n in 1..%d plus {255^k+d, 10^k+d}; string compression: all strings of length <=%d over "
                "[a-z ] not starting with a space plus boundary family; dictionary compression: all ASCII strings of length "
                "<=2 (<=3 thorough) (no backslash/backquote), all w1 sep w2 over %d dictionary/boundary words x 3 separators, every dictionary word on its own (and every [7th] word after 'a ' / before ' a'); base conversion: "
                "all bases 2..300 x {0..%d} u {b^k+d}. Cross-kind histories (same body text as »..«..` literal, expected values computed independently) and mixed-codec histories (every order of 1523 numbers / 728 strings / dictionary strings + interleaved, each in a freshly forked process). Round trip through the real lexer/transpiler/exec. "
                "Each input is distinct." % (N, L, len(words), 300 if not quick else 40))
    rep.sample({"n": 13, "compressed": "»" + "?" + "»"})
    rep.sample({"s": strs[len(strs) // 2]})
    rep.sample({"dict": dstr[-1]})
    rep.sample({"base": 255, "n": 255 ** 3})
    rep.assumptions = ["the compressed text is evaluated by the real lexer/parser/transpiler with compression on"]
    return rep


def replay(art):
    c = art["case"]
    if "n" in c and "base" not in c:
        d = _num_shard([c["n"]])
    elif "base" in c:
        d = _base_shard([(c["base"], [c["n"]])])
    elif art["kind"] in ("mixed", "cross"):
        return "replay by re-running the check (the verdict depends on the whole history of the process)"
    elif art["kind"] == "string":
        d = _str_shard([c["s"]])
    else:
        d = _dict_shard([c["s"]])
    return d["violations"] or None
