"""C08 - vectorising elements act element-wise. (E), exhaustive over small list shapes."""
from __future__ import annotations

import itertools
from fractions import Fraction

from vmc.core import explore, sandbox, yamlread
from vmc.core import elemsweep as S
from vmc.core.report import Report

PROP = "C08"
SCALARS = [-1, 0, 2, 3, Fraction(1, 2), "", "ab", "7"]   # "7": a string of odd length that is also a number
RANDOM = {"ƈ", "ṁ", "ÞB", "℅"}
# documented `vectorise: true` but the documented overload takes the list whole ("any" = a list function)
LIST_FUNCTIONS = {
    "¯": "deltas: (any) is a list function; it never maps over the items",
    "Þ∴": "documented lst-lst only: checked separately (section element_wise_minmax) against its scalar form ∴",
    "Þ∵": "documented lst-lst only: checked separately (section element_wise_minmax) against its scalar form ∵",
}


ALWAYS = {"≤", "≥", "ḃ", "ċ"}  # documented any / any-any: comparisons and truthiness
SIGS = {}
DOMAIN_OVERRIDE = {
    "Ḋ": ([["num", "num"]], "the string overloads push several values (documented 'Beware...'): no single result to map"),
    "Ė": ([["num"]], "on a string Ė executes it as a program"),
    "E": ([["num"]], "on a string E evaluates it as Python"),
}


def typeof(x):
    return "str" if isinstance(x, str) else "num"


def documented(key, args):
    sigs = SIGS.get(key)
    if not sigs:
        return True
    ts = [typeof(a) for a in args]
    return any(all(t == u or u == "any" for t, u in zip(ts, sig)) for sig in sigs)


def curated():
    """{key: (arity, {shape: reason-or-None})} derived from elements.yaml + the table."""
    sandbox.setup()
    import vyxal.elements as E

    out = {}
    excluded = {}
    for e in yamlread.read():
        key = e["key"]
        if e.get("vectorise") != "true" or e["kind"] != "element":
            continue
        if key not in E.elements:
            excluded[key] = "documented but not in the table"
            continue
        ar = E.elements[key][1]
        if ar not in (1, 2, 3):
            excluded[key] = "arity %s" % ar
            continue
        if key in RANDOM:
            excluded[key] = "random"
            continue
        if key in LIST_FUNCTIONS:
            excluded[key] = LIST_FUNCTIONS[key]
            continue
        sigs = [[{"string": "str"}.get(t, t) for t in s.split("-")] for s in e["overloads"]]
        if not any("num" in sig for sig in sigs) and key not in ALWAYS:
            excluded[key] = "no numeric overload documented (%s): not an arithmetic/comparison/bitwise/numeric element" % ",".join("-".join(x) for x in sigs)
            continue
        SIGS[key] = [sig for sig in sigs if len(sig) == ar]
        if key in DOMAIN_OVERRIDE:
            SIGS[key] = DOMAIN_OVERRIDE[key][0]
        shapes = {}
        cand = {1: ["L"], 2: ["LS", "SL", "LL"], 3: ["LSS"]}[ar]
        for sh in cand:
            why = None
            for sig in sigs:
                if len(sig) != ar:
                    if ar == 2 and sig == ["lst"]:  # e.g. the monadic list overload of a dyad: the list is taken whole
                        why = "overload (lst) takes the list whole"
                    continue
                specific = any(t in ("num", "str", "string") for t in sig)
                for pos, t in enumerate(sig):
                    if sh[pos] != "L":
                        continue
                    if t in ("lst", "fun") or (t == "any" and specific):
                        why = "overload %s takes a list at position %d" % ("-".join(sig), pos)
            shapes[sh] = why
        out[key] = (ar, shapes)
    return out, excluded


_SCALAR_CACHE = {}


def call(key, args):
    """Run the element on fresh values; returns ('ok', pyval) or ('raise', type)."""
    vals = [S.make(a) for a in args]
    import random

    random.seed(0)
    stack, exc, _ = sandbox.apply_element(key, vals, timeout=3.0)
    if isinstance(exc, sandbox.CaseTimeout):
        return ("timeout", "no result within the backstop")
    if exc is not None:
        return ("raise", type(exc).__name__)
    if not stack:
        return ("raise", "empty stack")
    try:
        with sandbox.watchdog(3.0):
            return ("ok", sandbox.pyval(stack[-1], limit=64))
    except BaseException as e:  # noqa
        if isinstance(e, KeyboardInterrupt):
            raise
        return ("raise", "forcing:" + type(e).__name__)


class OutOfDomain(Exception):
    pass


def scalar(key, args):
    if not documented(key, args):
        raise OutOfDomain("scalar types not among the documented overloads")
    k = (key, tuple(repr(a) for a in args))
    if k not in _SCALAR_CACHE:
        _SCALAR_CACHE[k] = call(key, list(args))
    r = _SCALAR_CACHE[k]
    if r[0] == "timeout":
        del _SCALAR_CACHE[k]
        raise sandbox.CaseTimeout()
    if r[0] != "ok":
        raise OutOfDomain(r[1])
    return r[1]


def is_list(x):
    return isinstance(x, (list, tuple)) and not (isinstance(x, tuple) and x and x[0] == "lazy")


def unlazy(x):
    if isinstance(x, tuple) and x and x[0] == "lazy":
        return [unlazy(y) for y in x[1]]
    if isinstance(x, list):
        return [unlazy(y) for y in x]
    return x


def model(key, args):
    """The vectorise model: recursive map / pairing with zero fill, bottoming out in the scalar call."""
    args = [unlazy(a) for a in args]
    n = len(args)
    if n == 1:
        a = args[0]
        if isinstance(a, list):
            return [model(key, [x]) for x in a]
        return scalar(key, [a])
    if n == 2:
        a, b = args
        la, lb = isinstance(a, list), isinstance(b, list)
        if la and lb:
            return [model(key, [x, y]) for x, y in itertools.zip_longest(a, b, fillvalue=0)]
        if la:
            return [model(key, [x, b]) for x in a]
        if lb:
            return [model(key, [a, y]) for y in b]
        return scalar(key, [a, b])
    a, b, c = args
    if isinstance(a, list):
        return [model(key, [x, b, c]) for x in a]
    return scalar(key, [a, b, c])


def nofloat(v):
    """A scalar call may return a Python float that the list path (LazyList.__next__ -> vyxalify) turns into
    the rational with the same decimal spelling; compare values, not representations."""
    if isinstance(v, (list, tuple)):
        if len(v) == 2 and v[0] == "float":
            try:
                f = Fraction(repr(v[1]))
                return int(f) if f.denominator == 1 else f
            except (ValueError, OverflowError):
                return tuple(v)
        return [nofloat(x) for x in v] if isinstance(v, list) else tuple(v)
    return v


def lists_for(tier):
    items = SCALARS + [[], [2], [3, "ab"]]
    maxlen = 2 if tier == "quick" else 3
    out = []
    for n in range(0, maxlen + 1):
        for p in itertools.product(range(len(items)), repeat=n):
            out.append([items[i] for i in p])
    # lengths 4-5 over a two-value domain
    for n in (4, 5):
        for p in itertools.product((0, 3), repeat=n):
            out.append(list(p))
    out.append([[[2, 0], 3], [-1]])  # depth 3
    out.append([[["ab"], []], 2])
    return out


def lazify(x):
    if isinstance(x, list):
        return ("lazy", [lazify(y) if isinstance(y, list) else y for y in x])
    return x


def depth(x):
    return 1 + max([depth(y) for y in x], default=0) if isinstance(x, list) else 0


def check(part, key, args, shape, form):
    a2 = [lazify(a) if form == "lazy" and isinstance(a, list) else a for a in args]
    try:
        want = model(key, args)
    except OutOfDomain:
        part.skip("a scalar call of the model raises (out of the element's scalar domain)")
        return
    except sandbox.CaseTimeout:
        part.skip("model timeout")
        return
    part.count()
    got = call(key, a2)
    if got[0] == "timeout":
        part.cap("backstop hit (slow is not wrong): %s %s" % (key, shape))
        return
    part.outcome((key, shape, repr(want)[:16]))
    if got[0] == "ok":
        got = ("ok", nofloat(got[1]))
    want = nofloat(want)
    if got != ("ok", want):
        part.violation("vectorise", {"element": key, "args": [S.spec_name(x) if not isinstance(x, list) else x for x in a2],
                                     "shape": shape, "form": form},
                       "vectorising element does not act element-wise",
                       {"element": key, "shape": shape, "form": form,
                        "what": "raises" if got[0] == "raise" else "wrong value"},
                       want, got[1], size=len(repr(args)))


def _shard(args):
    key, shape, form, tier = args
    import time

    t0 = time.time()
    part = explore.Partial()
    cur, _ = curated()
    lists = lists_for(tier)
    small = [l for l in lists if len(l) <= 2 and depth(l) <= 2]
    tiny_items = [0, 3, "ab", [2], "", []]   # includes the falsy items 0, "" and []
    tiny = [[tiny_items[i] for i in p] for n in range(3) for p in itertools.product(range(len(tiny_items)), repeat=n)]
    ar, shapes = cur[key]
    _SCALAR_CACHE.clear()
    if shape == "L":
        for l in lists:
            check(part, key, [l], "L", form)
    elif shape in ("LS", "SL"):
        for l in lists:
            for s in SCALARS:
                if len(l) > 3 and s not in (0, 3):
                    continue
                check(part, key, [l, s] if shape == "LS" else [s, l], shape, form)
    elif shape == "LL":
        pool = tiny if tier == "quick" else small + [[0, 3, "ab"], [3, 0, 0], [0, 3, 0, 3]]
        for l1 in pool:
            for l2 in pool:
                check(part, key, [l1, l2], "LL", form)
    elif shape == "LSS":
        for l in (tiny if tier == "quick" else small):
            for s1 in (0, 2, "ab"):
                for s2 in (3, "ab"):
                    check(part, key, [l, s1, s2], "LSS", form)
    part.section("per_element_cases", **{key: part.d["evaluations"]})
    part.section("per_element_seconds", **{key: round(time.time() - t0, 2)})
    return part.data()


def _shared_shard(args):
    """both arguments of a dyad read ONE lazy source: a lazy list and its duplicate (what `:` makes), possibly after one of them has
    been partly read or transformed at a different pace; the model still pairs position by position"""
    keys, tier = args
    from vyxal.helpers import deep_copy
    from vyxal.LazyList import LazyList

    import vyxal.elements as E

    part = explore.Partial()
    ctx = sandbox.fresh_ctx()
    base_lists = [[2, 3, -1, 0, 3], [0, 2], [3], [2, 0, 2, 3]]
    for key in keys:
        for items in base_lists:
            for variant in ("dup", "dup-reversed", "dup-after-peek", "dup-tail", "reversed-dup-after-peek",
                            "dup-vs-reversed-original-after-peek", "dup-vs-reversed-original"):
                a = LazyList(iter(list(items)))
                if variant in ("dup-after-peek", "reversed-dup-after-peek", "dup-vs-reversed-original-after-peek"):
                    a[0]
                b = deep_copy(a)
                want_b = list(items)
                if variant.startswith("dup-vs-reversed-original"):
                    # the duplicate is one operand, the reversal of the ORIGINAL object the other
                    a, b = b, E.reverse(a, ctx)
                    want_b = list(items)[::-1]
                elif variant in ("dup-reversed", "reversed-dup-after-peek"):
                    b = E.reverse(b, ctx)
                    want_b = list(items)[::-1]
                elif variant == "dup-tail":
                    b = E.head_remove(b, ctx)
                    want_b = list(items)[1:]
                for order in ("ab", "ba"):
                    x, y = (a, b) if order == "ab" else (b, a)
                    mx, my = (list(items), want_b) if order == "ab" else (want_b, list(items))
                    try:
                        want = model(key, [mx, my])
                    except (OutOfDomain, sandbox.CaseTimeout):
                        part.skip("a scalar call of the model raises")
                        continue
                    part.count()
                    stack, exc, _ = sandbox.apply_element(key, [x, y], timeout=3.0)
                    if isinstance(exc, sandbox.CaseTimeout):
                        part.cap("backstop hit: %s shared" % key)
                        continue
                    try:
                        got = ("ok", nofloat(sandbox.pyval(stack[-1], limit=64))) if exc is None and stack else ("raise", type(exc).__name__)
                    except Exception as e:  # noqa
                        got = ("raise", "forcing:" + type(e).__name__)
                    part.outcome((key, variant))
                    if got != ("ok", nofloat(want)):
                        part.violation("vectorise", {"element": key, "args": [items, variant, order], "shape": "LL-shared-source", "form": "lazy"},
                                       "vectorising element does not act element-wise",
                                       {"element": key, "shape": "LL-shared-source", "form": "lazy", "what": "raises" if got[0] == "raise" else "wrong value"},
                                       want, got[1], size=len(items) + 50)
                    # fresh objects for the other order
                    a = LazyList(iter(list(items)))
                    if variant in ("dup-after-peek", "reversed-dup-after-peek", "dup-vs-reversed-original-after-peek"):
                        a[0]
                    b = deep_copy(a)
                    if variant.startswith("dup-vs-reversed-original"):
                        a, b = b, E.reverse(a, ctx)
                    elif variant in ("dup-reversed", "reversed-dup-after-peek"):
                        b = E.reverse(b, ctx)
                    elif variant == "dup-tail":
                        b = E.head_remove(b, ctx)
    part.section("shared_source", cases=part.d["evaluations"])
    return part.data()


def _minmax_shard(args):
    """Þ∴ / Þ∵ are documented `vectorise: true` with the single overload lst-lst: two flat lists are paired position by
    position (Vectorisation.md: through vy_zip, i.e. the shorter list is filled with 0) and ∴ / ∵ is applied to each pair."""
    key, base, form, tier = args
    part = explore.Partial()
    dom = [-1, 0, 2, 3, Fraction(1, 2)]
    maxlen = 3 if tier == "quick" else 4
    lists = [list(p) for n in range(0, maxlen + 1) for p in itertools.product(dom if n <= 2 else (0, 3, -1), repeat=n)]
    for a in lists:
        for b in lists:
            try:
                want = [scalar(base, [x, y]) for x, y in itertools.zip_longest(a, b, fillvalue=0)]
            except OutOfDomain:
                part.skip("scalar call raises")
                continue
            args2 = [lazify(a) if form == "lazy" else a, lazify(b) if form == "lazy" else b]
            part.count()
            got = call(key, args2)
            part.outcome((key, len(a), len(b)))
            if got != ("ok", want):
                rel = "equal" if len(a) == len(b) else ("left shorter" if len(a) < len(b) else "right shorter")
                part.violation("vectorise", {"element": key, "args": [a, b], "shape": "LL", "form": form},
                               "vectorising element does not act element-wise",
                               {"element": key, "shape": "LL", "form": form, "lengths": rel,
                                "what": "raises" if got[0] == "raise" else "wrong value"}, want, got[1], size=len(repr([a, b])))
    part.section("element_wise_minmax", cases=part.d["evaluations"])
    return part.data()


def run(tier, seed):
    rep = Report(PROP, tier, seed, "exploration")
    cur, excluded = curated()
    SIGS["∴"] = [["num", "num"]]
    SIGS["∵"] = [["num", "num"]]
    dyads_ll = [k for k in sorted(cur) if cur[k][0] == 2 and cur[k][1].get("LL") is None]
    explore.pmap(_shared_shard, [(c, tier) for c in explore.chunks(dyads_ll, 16)], rep, seed)
    explore.pmap(_minmax_shard, [(k, b, f, tier) for k, b in (("Þ∴", "∴"), ("Þ∵", "∵")) for f in ("eager", "lazy")], rep, seed)
    keys = sorted(cur)
    shards = [(k, sh, form, tier) for k in keys for sh, why in cur[k][1].items() if why is None for form in ("eager", "lazy")]
    explore.pmap(_shard, shards, rep, seed)
    rep.extra["curated_table"] = {k: {"arity": v[0], "shapes_checked": [s for s, why in v[1].items() if why is None],
                                      "shapes_excluded": {s: why for s, why in v[1].items() if why}} for k, v in cur.items()}
    rep.extra["excluded_elements"] = excluded
    rep.extra["allow_skips"] = True
    rep.extra["distinct_cases"] = rep.evaluations
    rep.nontrivial = set()
    rep.extra["nontrivial_count_extra"] = rep.evaluations
    rep.rule = ("elements documented `vectorise: true` in elements.yaml, present in the table with arity 1-3 (%d elements; a shape is "
                "checked unless a documented overload takes a list at a list-carrying position); lists of length <=%d over "
                "%s plus nested items, lengths 4-5 over {0,3}, two depth-3 lists; shapes L / LS / SL / LL (all pairs of small lists, "
                "equal and unequal lengths) / LSS; each list eager and as a fresh LazyList; oracle: recursive map with zero fill "
                "bottoming out in the same element on scalars. Every (element, shape, args, form) is a distinct case."
                % (len(cur), 2 if tier == "quick" else 3, [str(s) for s in SCALARS]))
    rep.sample({"element": "+", "shape": "LL", "args": [[2, [3, "ab"]], [0]], "expected": "[2+0, [3,'ab']+0]"})
    rep.sample({"element": "½", "shape": "L", "args": [[[[2, 0], 3], [-1]]], "form": "lazy"})
    rep.sample({"element": "<", "shape": "SL", "args": ["ab", [3, "", 2]]})
    rep.assumptions = ["vectorise model: recursive map; scalar paired with every item; lists paired position-wise, shorter filled with 0",
                       "cases whose scalar calls raise are out of domain"]
    return rep


def replay(art):
    c = art["case"]
    part = explore.Partial()

    def unspec(x):
        if isinstance(x, str) and x.startswith("lazy["):
            import ast

            return ast.literal_eval(x[4:])
        if isinstance(x, str) and (x[:1] in "'\"" or x.lstrip("-").replace("/", "").isdigit()):
            import ast

            try:
                return ast.literal_eval(x)
            except Exception:
                return Fraction(x)
        return x

    args = [unspec(a) for a in c["args"]]
    check(part, c["element"], args, c["shape"], c["form"])
    return part.d["violations"] or None
