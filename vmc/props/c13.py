"""C13 - a finite lazy list is indistinguishable from the list it enumerates.

Shape (S): explicit-state search.  A state is the observation history that reaches it;
build(history) replays it on a FRESH LazyList over an instrumented source; the reference
model is a Python list and is compared after EVERY observation.
"""
from __future__ import annotations

import itertools

from vmc.core import explore, sandbox
from vmc.core.report import Report

PROP = "C13"


class Src:
    """Instrumented finite source: counts pulls, remembers exhaustion."""

    def __init__(self, items):
        self.items = items
        self.pulls = 0
        self.stopped = False

    def __iter__(self):
        return self

    def __next__(self):
        if self.pulls >= len(self.items):
            self.stopped = True
            raise StopIteration
        v = self.items[self.pulls]
        self.pulls += 1
        return v


def mk(items, kind):
    from vyxal.LazyList import LazyList

    src = Src(list(items))
    if kind in ("copy", "copy_partial"):
        # a deep_copy (backed by itertools.tee over the original's iterator) is a lazy list over the same finite sequence too
        from vyxal.helpers import deep_copy

        orig = LazyList(src)
        if kind == "copy_partial" and items:
            orig[0]
        c = deep_copy(orig)
        c._keepalive = orig
        return c, src
    if kind == "iter":
        return LazyList(src), src
    else:  # a generator source, as the @lazylist elements produce
        def gen():
            for x in src:
                yield x

        return LazyList(gen()), src


def norm(v):
    from vyxal.LazyList import LazyList

    if isinstance(v, LazyList):
        return [norm(x) for x in v.listify()]
    if isinstance(v, (list, tuple)):
        return [norm(x) for x in v]
    if isinstance(v, bool):
        return int(v)
    if isinstance(v, (itertools.islice,)):
        return [norm(x) for x in v]
    if hasattr(v, "is_Integer") and v.is_Integer:
        return int(v)
    return v


OUT_OF_DOMAIN = object()


def _idx(i):
    def impl(L):
        return L[i]

    def model(M):
        if not M:
            return OUT_OF_DOMAIN  # a plain list raises; the property defines wrap-around only for items that exist
        if i < 0:
            if -i > len(M):
                return OUT_OF_DOMAIN
            return M[i]
        return M[i % len(M)]

    return impl, model


def _slice(a, b, c):
    def impl(L):
        return L[a:b:c]

    def model(M):
        return M[a:b:c]

    return impl, model


def _copy_then(f):
    def impl(L):
        from vyxal.helpers import deep_copy

        return f(deep_copy(L))

    def model(M):
        return f(list(M))

    return impl, model


def _twin(M):
    from vyxal.LazyList import LazyList

    return LazyList(iter(list(M)))


OPS = {}


def _op(name, impl, model):
    OPS[name] = (impl, model)


for _i in (0, 1, 2, 3, 5):
    _op("idx%d" % _i, *_idx(_i))
for _i in (-1, -2):
    _op("idx%d" % _i, *_idx(_i))
_op("s[:2]", *_slice(None, 2, None))
_op("s[1:]", *_slice(1, None, None))
_op("s[0:-1]", *_slice(0, -1, None))
_op("s[::2]", *_slice(None, None, 2))
_op("s[::-1]", *_slice(None, None, -1))
_op("s[1:3]", *_slice(1, 3, None))
_op("s[0:5]", *_slice(0, 5, None))
_op("s[0:-3]", *_slice(0, -3, None))      # a negative stop that may lie before the start of the list
_op("s[:-4]", *_slice(None, -4, None))
_op("s[-2:]", *_slice(-2, None, None))
_op("s[-5:2]", *_slice(-5, 2, None))
_op("len", lambda L: len(L), lambda M: len(M))
_op("iter", lambda L: list(iter(L)), lambda M: list(M))
_op("bool", lambda L: bool(L), lambda M: bool(M))
_op("in1", lambda L: int(1 in L), lambda M: int(1 in M))
_op("in7", lambda L: int(7 in L), lambda M: int(7 in M))
_op("eqlist", lambda L: int(L == list(L_model[0])), lambda M: 1)
_op("eqtwin", lambda L: int(L == _twin(L_model[0])), lambda M: 1)
_op("nelist", lambda L: int(L == list(L_model[0]) + [9]), lambda M: 0)
_op("count1", lambda L: L.count(1), lambda M: M.count(1))
_op("reversed", lambda L: L.reversed(), lambda M: list(reversed(M)))
_op("copy_listify", *_copy_then(lambda X: norm(X) if not isinstance(X, list) else list(X)))
_op("copy_idx0", *_copy_then(lambda X: (X[0] if len(X) else "empty")))
_op("copy_len", *_copy_then(lambda X: len(X)))
_op("listify", lambda L: L.listify(), lambda M: list(M))
_op("has_ind1", lambda L: int(bool(L.has_ind(1))), lambda M: int(1 < len(M)))
_op("has_ind0", lambda L: int(bool(L.has_ind(0))), lambda M: int(0 < len(M)))
_op("add", lambda L: L + [7], lambda M: M + [7])

L_model = [None]  # current model list, for the == observations
SLOTS = {}        # persistent objects created by earlier observations of the current history: a copy, a Python iterator


def _mkcopy(L):
    from vyxal.helpers import deep_copy

    SLOTS["copy"] = deep_copy(L)
    SLOTS["copy_pos"] = 0
    return "made"


def _copy_next(L):
    c = SLOTS.get("copy")
    if c is None:
        return OUT_OF_DOMAIN
    k = SLOTS.get("copy_pos", 0)
    SLOTS["copy_pos"] = k + 1
    return c[k] if c.has_ind(k) else "end"


def _copy_next_model(M):
    if "copy" not in SLOTS_MODEL:
        return OUT_OF_DOMAIN
    k = SLOTS_MODEL.get("copy_pos", 0)
    SLOTS_MODEL["copy_pos"] = k + 1
    return M[k] if k < len(M) else "end"


def _copy_all(L):
    c = SLOTS.get("copy")
    return OUT_OF_DOMAIN if c is None else c.listify()


def _mkiter(L):
    SLOTS["iter"] = iter(L)
    return "made"


def _iter_next(L):
    it = SLOTS.get("iter")
    return OUT_OF_DOMAIN if it is None else next(it, "end")


def _iter_next_model(M):
    if "iter" not in SLOTS_MODEL:
        return OUT_OF_DOMAIN
    k = SLOTS_MODEL.get("iter_pos", 0)
    SLOTS_MODEL["iter_pos"] = k + 1
    return M[k] if k < len(M) else "end"


def _iter_rest(L):
    it = SLOTS.get("iter")
    return OUT_OF_DOMAIN if it is None else list(it)


def _iter_rest_model(M):
    if "iter" not in SLOTS_MODEL:
        return OUT_OF_DOMAIN
    k = SLOTS_MODEL.get("iter_pos", 0)
    SLOTS_MODEL["iter_pos"] = max(k, len(M))
    return M[k:]


SLOTS_MODEL = {}


def _mk_model(slot):
    def f(M):
        SLOTS_MODEL[slot] = True
        SLOTS_MODEL[slot + "_pos"] = 0
        return "made"

    return f


_op("mkcopy", _mkcopy, _mk_model("copy"))
_op("copy.next", _copy_next, _copy_next_model)
_op("copy.all", _copy_all, lambda M: list(M) if "copy" in SLOTS_MODEL else OUT_OF_DOMAIN)
_op("mkiter", _mkiter, _mk_model("iter"))
_op("iter.next", _iter_next, _iter_next_model)
_op("iter.rest", _iter_rest, _iter_rest_model)
OPNAMES = list(OPS)
QUICK_OPS = OPNAMES


def sources(maxlen=3, alphabet=(0, 1, 2)):
    out = []
    for n in range(maxlen + 1):
        out.extend(list(p) for p in itertools.product(alphabet, repeat=n))
    return out


def prestate(L, src):
    g = len(L.generated)
    if g == 0:
        a = "none"
    elif g < len(src.items):
        a = "partial"
    elif g == len(src.items):
        a = "all"
    else:
        a = "over"
    return a + ("+stopped" if src.stopped else "")


def run_history(items, kind, hist, part=None, upto_only_last=False):
    """Replay hist on a fresh lazy list; compare every observation with the model.
    Returns list of (step, opname, expected, observed, prestate) for disagreements."""
    L, src = mk(items, kind)
    M = list(items)
    L_model[0] = M
    SLOTS.clear()
    SLOTS_MODEL.clear()
    bad = []
    for step, name in enumerate(hist):
        impl, model = OPS[name]
        pre = prestate(L, src)
        exp = model(M)
        if exp is OUT_OF_DOMAIN:
            # still perform it (it may disturb the state) but do not judge the value
            try:
                with sandbox.watchdog(20):
                    impl(L)
            except (Exception, sandbox.CaseTimeout):
                pass
            if part is not None:
                part.skip("index outside the list (plain list raises)")
        else:
            try:
                with sandbox.watchdog(20):     # an observation of a list of <= 3 items takes microseconds
                    got = impl(L)
                    got = norm(got) if got is not OUT_OF_DOMAIN else got
            except sandbox.CaseTimeout:
                got = "raises NonTermination (20 s)"
            except Exception as e:  # the model never raises here
                got = "raises " + type(e).__name__
            if part is not None:
                part.count()
            if got != norm(exp):
                bad.append((step, name, norm(exp), got, pre))
                break  # later observations are on a corrupted object; the first one is the witness
        # invariant: observations never change the denoted sequence
        g = list(L.generated)
        if g != M[: len(g)] or len(g) > len(M):
            bad.append((step, name, "generated is a prefix of the source", ["generated", norm(g)], pre))
            break
    return bad, L, src


def _shard(args):
    items_list, kind, depth, ops = args[:4]
    prefix = (args[4],) if len(args) > 4 else ()
    part = explore.Partial()
    for items in items_list:
        for hist in itertools.product(ops, repeat=depth):
            hist = prefix + hist
            bad, L, src = run_history(items, kind, hist, part)
            part.outcome((tuple(items), len(L.generated), src.stopped))
            part.nontriv()
            for step, name, exp, got, pre in bad:
                h = list(hist[: step + 1])
                kindv = "invariant" if isinstance(got, list) and got[:1] == ["generated"] else (
                    "raises" if isinstance(got, str) and got.startswith("raises") else "value")
                part.violation(
                    kind="history", case={"source": items, "source_kind": kind, "history": h},
                    signature="%s: %s differs from list" % (name, kindv),
                    tags={"op": name, "pre": pre, "diff": kindv},
                    expected=exp, observed=got, size=len(h) * 10 + len(items))
    return part.data()


def _bfs_source(args):
    """Dedup pass: canon = (generated, pulls, stopped).  Same-futures argument: a LazyList's
    behaviour is a function of (raw iterator position, generated, infinite flag) only."""
    items, kind, depth = args
    part = explore.Partial()

    def build(hist):
        bad, L, src = run_history(items, kind, hist)
        slots = dict(SLOTS)
        slots["iter_pos"] = SLOTS_MODEL.get("iter_pos", 0)
        return (L, src, bad, slots)

    def canon(st):
        L, src, bad, slots = st
        c = slots.get("copy")
        return (tuple(L.generated), src.pulls, src.stopped, bool(bad),
                None if c is None else (len(c.generated), slots.get("copy_pos", 0)),
                slots.get("iter_pos") if "iter" in slots else None)

    def enabled(st, hist):
        if st[2]:
            return []
        return OPNAMES

    def check(hist, st):
        L, src, bad, _slots = st
        for step, name, exp, got, pre in bad:
            if step == len(hist) - 1:
                kindv = "invariant" if isinstance(got, list) and got[:1] == ["generated"] else (
                    "raises" if isinstance(got, str) and got.startswith("raises") else "value")
                part.violation(kind="history", case={"source": items, "source_kind": kind, "history": list(hist)},
                               signature="%s: %s differs from list" % (name, kindv),
                               tags={"op": name, "pre": pre, "diff": kindv}, expected=exp, observed=got,
                               size=len(hist) * 10 + len(items))

    states, transitions, maxd, dedup = explore.bfs([], enabled, build, canon, check, depth)
    part.section("bfs", states=states, transitions=transitions, dedup_hits=dedup)
    part.section("bfs_maxdepth_%d" % maxd, sources=1)
    part.count(transitions)
    return part.data()


def run(tier, seed):
    rep = Report(PROP, tier, seed, "model_checking")
    depth = 3 if tier == "quick" else 4
    srcs = sources(3)
    kinds = ["iter", "gen"] if tier == "thorough" else ["iter"]
    shards = []
    for kind in kinds:
        for items in srcs:
            shards.append(([items], kind, depth, OPNAMES))
    if tier == "quick":
        # generator-backed sources at depth 2 as well
        for items in srcs:
            shards.append(([items], "gen", 2, OPNAMES))
    # copies (tee-backed lazy lists) as the object under observation
    for items in srcs:
        for k in ("copy", "copy_partial"):
            shards.append(([items], k, 2 if tier == "quick" else 3, OPNAMES))
    # deeper, still WITHOUT dedup, over the observations that create / advance persistent copies and iterators: a suspended
    # iterator carries hidden state (its resume point) that no canonical form over the list's own fields can see
    focus = ["idx0", "idx1", "len", "bool", "listify", "idx-1", "mkcopy", "copy.next", "copy.all", "mkiter", "iter.next", "iter.rest",
             "reversed", "eqlist"]
    fdepth = 5 if tier == "quick" else 6
    fsrc = [[], [0], [0, 1], [0, 1, 2], [1, 1, 2]]
    for items in fsrc:
        for first in focus:
            shards.append(([items], "gen", fdepth - 1, focus, first))
            if tier == "thorough":
                shards.append(([items], "iter", fdepth - 1, focus, first))
    explore.pmap(_shard, shards, rep, seed)
    n_hist = sum(len(s[3]) ** s[2] for s in shards)
    # dedup pass, deeper
    bdepth = 6 if tier == "quick" else 10
    explore.pmap(_bfs_source, [(items, k, bdepth) for items in srcs for k in ("iter", "gen")], rep, seed)
    b = rep.sections.get("bfs", {})
    rep.extra.update({
        "states": int(b.get("states", 0)) or 1,
        "transitions": int(b.get("transitions", 0)) + n_hist * depth or 1,
        "traces_validated_against_impl": n_hist + int(b.get("transitions", 0)),
        "histories_no_dedup": n_hist,
        "history_depth_no_dedup": depth,
        "bfs_depth_bound": bdepth,
        "sources": len(srcs),
        "operations": OPNAMES,
        "explanation": "every history runs on the real LazyList class (fresh object per history); "
                       "the model is a Python list compared after each observation, so every explored trace "
                       "is an implementation trace",
    })
    rep.rule = ("all sources of length 0..3 over {0,1,2} x all histories of length %d over %d parametrised "
                "observations, no dedup; plus BFS with dedup on (generated, pulls, stopped) to depth %d. "
                "A history is non-trivial if it has >=1 judged observation; distinct = distinct (source,history)."
                % (depth, len(OPNAMES), bdepth))
    import random

    rnd = random.Random(seed)
    for _ in range(4):
        s = rnd.choice(srcs)
        rep.sample({"source": s, "history": [rnd.choice(OPNAMES) for _ in range(depth)]})
    rep.assumptions = ["Python list is the reference model", "indexing an empty list / negative index beyond the "
                       "length is outside the property (plain list raises) and is executed but not judged"]
    return rep


def replay(art):
    c = art["case"]
    bad, L, src = run_history(c["source"], c.get("source_kind", "iter"), c["history"])
    return bad or None
