"""C01 - structures execute as specified: transpiled program == reference structure semantics.

(E1) all programs by size, (E2) all nesting chains to depth 4, (S) statement-sequence BFS in lock-step with the reference VM,
(F) the nine flag sets through the real execute_vyxal."""
from __future__ import annotations

import contextlib
import io
import itertools

from vmc.core import explore, progs, refvm, sandbox
from vmc.core.report import Report

PROP = "C01"


# ------------------------------------------------------------------ program enumeration (my AST, smallest first)
def N(k):
    return ("num", k)


def E(k):
    return ("el", k)


ATOMS_FULL = [N(0), N(1), N(2), N(3), E("₀"), E("u"), ("str", "a")] + [E(k) for k in
              "+-*=<>›‹dNLhJ\"w∑ɾf:_$!n?,…₴£¥W†"] + [("set", "a"), ("get", "a"), ("fncall", "f"), ("break",), ("recurse",)]
ATOMS_MID = [N(0), N(1), N(2), E("+"), E("-"), E("="), E("<"), E("›"), E("d"), E("w"), E("ɾ"), E(":"), E("_"), E("$"), E("!"), E("n"),
             E("?"), E(","), E("W"), E("†"), ("set", "a"), ("get", "a"), ("fncall", "f"), ("break",), ("recurse",)]
ATOMS_CORE = [N(0), N(1), E("+"), E(":"), E("_"), E("n"), E("?"), E(","), E("!"), E("$"), ("set", "a"), ("get", "a")]
MODS1 = ["v", "&", "~", "ß", "ƒ", "ɖ", "⁽"]
MODS2 = ["₌", "₍", "‡"]


def compositions(n, k):
    """ordered k-tuples of positive ints summing to n"""
    if k == 1:
        if n >= 1:
            yield (n,)
        return
    for first in range(1, n - k + 2):
        for rest in compositions(n - first, k - 1):
            yield (first,) + rest


def _has_break(seq):
    return "('break',)" in repr(seq)


class Gen:
    def __init__(self, atoms, mods=True, rich=True):
        self.atoms = atoms
        self.mods = mods
        self.rich = rich
        self._seq = {}
        self._node = {}

    def seqs(self, n):
        """all sequences of nodes of total size n (n >= 0)"""
        if n in self._seq:
            return self._seq[n]
        if n == 0:
            out = [()]
        else:
            out = []
            for first in range(1, n + 1):
                for nd in self.nodes(first):
                    for rest in self.seqs(n - first):
                        out.append((nd,) + rest)
        self._seq[n] = out
        return out

    def nodes(self, n):
        if n in self._node:
            return self._node[n]
        out = []
        if n == 1:
            out += list(self.atoms)
        if n >= 2:
            m = n - 1
            # one-body structures
            for body in self.seqs(m):
                out.append(("if", (body,)))
                out.append(("for", None, body))
                if _has_break(body):
                    out.append(("while", None, body))  # an infinite loop without a break cannot terminate
                out.append(("lam", None, body))
                out.append(("map", body))
                out.append(("list", (body,)))
                out.append(("fndef", "f", (), body))
                if self.rich:
                    out.append(("for", "i", body))
                    out.append(("lam", 2, body))
                    out.append(("lam", 0, body))
                    out.append(("filter", body))
                    out.append(("sort", body))
                    out.append(("fndef", "f", (1,), body))
                    out.append(("fndef", "f", (2,), body))
                    out.append(("fndef", "f", ("b",), body))
            # two-body structures
            if m >= 2:
                for a, b in compositions(m, 2):
                    for x in self.seqs(a):
                        for y in self.seqs(b):
                            out.append(("if", (x, y)))
                            out.append(("while", x, y))
                            out.append(("list", (x, y)))
            if m >= 3 and self.rich:
                for a, b, c in compositions(m, 3):
                    for x in self.seqs(a):
                        for y in self.seqs(b):
                            for z in self.seqs(c):
                                out.append(("if", (x, y, z)))
            if self.rich and m >= 2:
                # function with two parameters consumes nothing extra in size
                for body in self.seqs(m):
                    if m <= 2:
                        out.append(("fndef", "f", ("b", 1), body))
            # modifiers: operands are single nodes
            if self.mods:
                for op in self.nodes(m):
                    for mm in MODS1:
                        out.append(("mod", mm, (op,)))
                if m >= 2:
                    for a, b in compositions(m, 2):
                        for x in self.nodes(a):
                            for y in self.nodes(b):
                                for mm in MODS2:
                                    out.append(("mod", mm, (x, y)))
                if m >= 3:
                    for a, b, c in compositions(m, 3):
                        for x in self.nodes(a):
                            for y in self.nodes(b):
                                for z in self.nodes(c):
                                    out.append(("mod", "≬", (x, y, z)))
        self._node[n] = out
        return out

    def programs(self, n):
        out = []
        for k in range(1, n + 1):
            out += self.seqs(k)
        return out


# ------------------------------------------------------------------ running both sides
def canon_ref(v):
    if isinstance(v, (refvm.Fn, refvm.NamedFn)):
        return ("f",)
    if isinstance(v, list):
        if len(v) > 64:
            return ("l", tuple(canon_ref(x) for x in v[:64]) + (("...",),))
        return ("l", tuple(canon_ref(x) for x in v))
    return sandbox.canon(v)


class Verdict:
    __slots__ = ("status", "detail", "expected", "observed")


def static_domain(prog):
    """Python scoping of the generated code is not documented semantics: a name assigned ANYWHERE in a def (even in a branch
    that never runs) is local to it.  Programs that assign variables / define functions inside a lambda or function body
    are therefore outside the reference's domain - decided statically, not on the executed path."""
    def walk(seq, in_def, top):
        for nd in seq:
            t = nd[0]
            if t == "fndef":
                if not top:
                    return "function definition that is not a top-level statement"
                r = walk(nd[3], True, False)
                if r:
                    return r
            elif t == "set" and in_def:
                return "variable assignment inside a lambda/function body"
            elif t == "for":
                if nd[1] is not None and in_def:
                    return "named loop variable inside a lambda/function body"
                r = walk(nd[2], in_def, False)
                if r:
                    return r
            elif t in ("if", "list"):
                for b in nd[1]:
                    r = walk(b, in_def or t == "list", False)
                    if r:
                        return r
            elif t == "while":
                for b in ([nd[1]] if nd[1] is not None else []) + [nd[2]]:
                    r = walk(b, in_def, False)
                    if r:
                        return r
            elif t == "lam":
                r = walk(nd[2], True, False)
                if r:
                    return r
            elif t in ("map", "filter", "sort"):
                r = walk(nd[1], True, False)
                if r:
                    return r
            elif t == "mod":
                r = walk(nd[2], True, False)
                if r:
                    return r
        return None

    return walk(prog, False, True)


def _nesting(v):
    """depth of nested tuples (a canonical list is ('l', (items...)): two tuple levels per list level)"""
    depth, frontier = 0, [v]
    while frontier:
        nxt = []
        for x in frontier:
            if isinstance(x, tuple):
                nxt.extend(x)
        if not nxt:
            break
        depth += 1
        frontier = nxt
    return depth


def run_ref(prog, inputs, flags="", preset=None, finish=False, fuel=1500):
    bad = static_domain(prog)
    if bad:
        return ("ood", bad, None, None)
    vm = refvm.RefVM(inputs, flags, fuel=fuel)
    try:
        with sandbox.watchdog(10.0):
            st = vm.run_program(prog, list(preset) if preset else None)
            if finish:
                out = vm.finish(st)
                if len(out) > 4000:
                    return ("ood", "result too large to compare within the time backstop", None, vm)
                return ("ok", None, out, vm)
            cs = tuple(canon_ref(x) for x in st)
            if _nesting(cs) > 40:
                # how deep a value may nest before CPython's recursion limit hits inside the library depends on how deep the
                # call stack already is (a worker frame, a watchdog frame): not part of the semantics
                return ("ood", "result nested deeper than 20 list levels", None, vm)
            if len(repr(cs)) > 20000:
                return ("ood", "result too large to compare within the time backstop", None, vm)
            return ("ok", cs, "".join(vm.out), vm)
    except refvm.OutOfDomain as e:
        return ("ood", str(e), None, vm)
    except refvm.Fuel:
        return ("fuel", None, None, vm)
    except RecursionError:
        return ("fuel", "recursion", None, vm)
    except sandbox.CaseTimeout:
        return ("fuel", "timeout", None, vm)
    except Exception as e:  # noqa  - a bug in the reference itself must be visible, not a verdict
        return ("ood", "REFERENCE RAISED %s: %s" % (type(e).__name__, str(e)[:60]), None, vm)


def run_impl(text, inputs):
    r = sandbox.run_program(text, inputs=list(inputs), timeout=3.0)
    if isinstance(r.exc, sandbox.CaseTimeout):
        r = sandbox.run_program(text, inputs=list(inputs), timeout=20.0)  # slow is not wrong: once more with a generous budget
        if isinstance(r.exc, sandbox.CaseTimeout):
            return ("timeout", "no result within 20 s", r.stdout)
    if r.exc is not None:
        return ("raises", type(r.exc).__name__ + ": " + str(r.exc)[:80], r.stdout)
    try:
        with sandbox.watchdog(3.0), contextlib.redirect_stdout(io.StringIO()):
            st = tuple(sandbox.canon(x) for x in r.stack)
    except BaseException as e:  # noqa
        if isinstance(e, KeyboardInterrupt):
            raise
        return ("raises", "forcing the final stack: " + type(e).__name__, r.stdout)
    return ("ok", st, r.stdout)


def construct_tags(prog):
    """which constructs occur (for signatures)"""
    kinds = set()

    def walk(seq):
        for nd in seq:
            t = nd[0]
            if t == "el":
                if nd[1] in "†MFṡR":
                    kinds.add(nd[1])
                continue
            if t in ("num", "str"):
                continue
            kinds.add(t if t != "mod" else "mod" + nd[1])
            if t in ("if", "list"):
                for b in nd[1]:
                    walk(b)
            elif t == "for":
                walk(nd[2])
            elif t == "while":
                if nd[1] is not None:
                    walk(nd[1])
                walk(nd[2])
            elif t == "lam":
                walk(nd[2])
            elif t in ("map", "filter", "sort"):
                walk(nd[1])
            elif t == "fndef":
                walk(nd[3])
            elif t == "mod":
                walk(nd[2])

    walk(prog)
    return "+".join(sorted(kinds)) or "atoms"


def compare(part, prog, inputs, section):
    text = progs.render_seq(prog)
    ref = run_ref(prog, inputs)
    part.count()
    if ref[0] == "ood":
        part.skip("out of the reference's domain: " + ref[1].split(":")[0][:50])
        return
    if ref[0] == "fuel":
        part.skip("divergent by reference (fuel)")
        return
    impl = run_impl(text, inputs)
    if impl[0] == "timeout":
        part.cap("implementation did not return within 20 s where the reference terminates: " + text)
        return
    part.nontriv()
    part.outcome((impl[0], hash(ref[1]) % 9973))
    size = progs.size_seq(prog) * 100 + len(text) + len(inputs)
    tags = {"constructs": construct_tags(prog), "section": section}
    case = {"program": text, "inputs": [sandbox.show(sandbox.canon(i)) for i in inputs], "ast": repr(prog)[:300], "section": section}
    if impl[0] != "ok":
        part.violation("program", case, "implementation raises where the reference semantics is defined",
                       dict(tags, what=impl[1].split(":")[0]), {"stack": [sandbox.show(x) for x in ref[1]], "stdout": ref[2]},
                       impl[1], size=size)
        return
    if impl[1] != ref[1]:
        part.violation("program", case, "final stack differs from the reference semantics", dict(tags, what="stack"),
                       [sandbox.show(x) for x in ref[1]], [sandbox.show(x) for x in impl[1]], size=size)
    elif impl[2] != ref[2]:
        part.violation("program", case, "printed text differs from the reference semantics", dict(tags, what="stdout"),
                       ref[2], impl[2], size=size)


INPUT_SETS = {"none": (), "3": (3,), "2,5": (2, 5), "list": ([1, 2],), "repeats": ([0, 1, 0], 4)}


def _e1_shard(args):
    progs_, input_names, section = args
    part = explore.Partial()
    for p in progs_:
        for nm in input_names:
            compare(part, p, INPUT_SETS[nm], section)
    return part.data()


# ------------------------------------------------------------------ E2: nesting chains
def chain_elements():
    return [
        ("if", lambda inner: (N(1), ("if", (inner,)))),
        ("if-else", lambda inner: (N(0), ("if", ((N(1),), inner)))),
        ("for", lambda inner: (N(2), ("for", None, inner))),
        ("while", lambda inner: (N(2), E("£"), ("while", (E("¥"),), (E("¥"), E("‹"), E("£")) + inner))),
        ("lambda", lambda inner: (("lam", None, inner), E("†"))),
        ("map", lambda inner: (N(2), ("map", inner))),
        ("filter", lambda inner: (N(2), ("filter", inner))),
        ("function", lambda inner: (("fndef", "f", (), inner), ("fncall", "f"))),
        ("list", lambda inner: (("list", (inner,)),)),
        ("while-cond", lambda inner: (N(1), E("£"), ("while", inner + (E("¥"),), (N(0), E("£"))))),  # inner sits in the condition (runs twice)
        ("lambda0", lambda inner: (("lam", 0, inner), E("†"))),
        ("lambda2", lambda inner: (N(4), N(5), ("lam", 2, inner), E("†"))),
        ("function-args", lambda inner: (N(4), N(5), ("fndef", "f", (1, "b"), inner), ("fncall", "f"))),
    ]


LEAVES = [(E("n"),), (E("n"), E(",")), (E(":"), ("if", ((("break",),),))), (E("?"), E("+")), (N(1), ("break",), N(2)),
          (("if", ((("break",),),)), N(9)),            # X when the construct's own stack has just been emptied
          (N(1), N(2), ("mod", "v", (E("+"),)), ("break",))]  # X after a modified element in the same scope


def probed_chain_elements():
    """the same nesting, but every level reads and prints its context value AFTER the inner construct has finished
    (a context value leaked by the inner construct's normal or early exit shows up here)"""
    P = (E("n"), E(","))
    return [
        ("if", lambda inner: (N(1), ("if", (inner + P,)))),
        ("for", lambda inner: (N(2), ("for", None, inner + P))),
        ("while", lambda inner: (N(2), E("£"), ("while", (E("¥"),), (E("¥"), E("‹"), E("£")) + inner + P))),
        ("while-falsy-exit", lambda inner: (("while", (N(0),), inner),) + P),
        ("lambda", lambda inner: (N(7), ("lam", None, inner + P), E("†"))),
        ("function", lambda inner: (N(7), ("fndef", "f", (1,), inner + P), ("fncall", "f"))),
        ("list", lambda inner: (("list", (inner + P,)),)),
    ]


def _e2_shard(args):
    firsts, depth, input_names = args[:3]
    part = explore.Partial()
    ce = probed_chain_elements() if len(args) > 3 and args[3] else chain_elements()
    for f in firsts:
        for d in range(0, depth - len(f) + 1):
            for rest in itertools.product(range(len(ce)), repeat=d):
                chain = tuple(f) + rest
                for leaf in LEAVES:
                    prog = leaf
                    for idx in reversed(chain):
                        prog = ce[idx][1](prog)
                    for nm in input_names:
                        compare(part, prog, INPUT_SETS[nm], "chains")
    return part.data()


# ------------------------------------------------------------------ S: statement-sequence BFS in lock-step
def statement_menu():
    m = [(a,) for a in ATOMS_MID if a[0] not in ("break", "recurse", "fncall")]
    L = lambda *x: tuple(x)  # noqa
    m += [
        L(("if", ((N(1),), (N(2),)))), L(("if", ((E("n"),),))), L(N(2), ("for", None, (E("n"),))), L(N(2), ("for", "i", (("get", "i"),))),
        L(N(2), E("£"), ("while", (E("¥"),), (E("¥"), E("‹"), E("£"), E("n")))), L(("lam", None, (E("n"),)), E("†")),
        L(("lam", 2, (E("+"),)), E("†")), L(N(2), ("map", (E("n"), E("›")))), L(N(3), ("filter", (N(2), E("<")))),
        L(("fndef", "f", (), (E("n"),)),), L(("fncall", "f"),), L(("fndef", "f", (1,), (E("d"),)),), L(("fndef", "f", ("b", 1), (("get", "b"), E("+"))),),
        L(("list", ((E("n"),), (N(1),)))), L(("mod", "v", (E("d"),))), L(("mod", "&", (E("›"),))), L(("mod", "&", (E("+"),))),
        L(("mod", "~", (E("+"),))), L(("mod", "ß", (E("d"),))), L(("mod", "ƒ", (E("+"),))), L(("mod", "ɖ", (E("+"),))),
        L(("mod", "₌", (E("+"), E("-")))), L(("mod", "₍", (E("d"), E("›")))), L(("mod", "⁽", (E("d"),)), E("†")),
        L(("mod", "‡", (E("d"), E("›"))), E("†")), L(N(3), ("for", None, (E("n"), ("if", ((("break",),),))))),
        L(N(3), ("for", None, (E("n"), N(2), E("<"), ("if", ((("recurse",),),)), E("n"), E(",")))), L(("lam", None, (N(1), ("break",), N(2))), E("†")),
        L(N(3), ("lam", None, (E(":"), ("if", ((E("‹"), ("recurse",)),)))), E("†")), L(N(3), E("ɾ")), L(E("W"),), L(N(2), ("sort", (E("N"),))),
        L(("mod", "₌", (E("+"), E("N")))), L(("mod", "₌", (E("N"), E("+")))), L(("mod", "₍", (E("+"), E("N")))), L(("mod", "₍", (E("d"), E("-")))),
        L(("mod", "₌", (E("!"), E("+")))), L(("mod", "~", (E("!"),))), L(("mod", "&", (E("!"),))), L(("mod", "v", (E("+"),))),
        L(("lam", None, (("if", ((("break",),),)), N(9))), E("†")), L(N(2), ("map", (("if", ((("break",),),)), N(9)))),
        L(("list", ((E("+"),), (E(":"),)))), L(("list", ((E("_"),), (E(":"),)))), L(("list", ((N(2), N(3)), (E(":"),), (E("$"), E("-"))))),
        L(("list", ((E("_"), E("_")), (E("n"),), (E("!"),)))), L(("lam", None, (N(1), E("+"))), E(",")), L(("lam", 2, (E("+"),)), E("…"), E("_")),
        L(("fndef", "g", (), (N(1), ("break",), N(2))), ("fncall", "g")), L(("fndef", "g", (1,), (E(":"), ("if", ((("break",),),)), N(5))), ("fncall", "g")),
        L(N(2), ("map", (("break",), E("!")))), L(N(3), ("filter", (N(2), E("<"), ("break",), N(0)))), L(("while", (N(0),), (N(1),)), E("n")),
        L(N(2), ("for", None, (("while", (N(0),), (N(1),)), E("n"), E(",")))),
    ]
    return m


class Lock:
    """both sides after a history of statements"""

    def __init__(self, hist, inputs):
        self.inputs = inputs
        self.vm = refvm.RefVM(inputs, "", fuel=6000)
        self.ref_status = "ok"
        self.ref_stack = []
        self.ns = sandbox.base_namespace()
        self.ctx = sandbox.fresh_ctx(inputs)
        self.stack = []
        self.ctx.stacks.append(self.stack)
        self.ns["stack"], self.ns["ctx"] = self.stack, self.ctx
        self.impl_exc = None
        self.out = io.StringIO()
        self.mismatch = None
        self.frame = refvm.Frame(self.ref_stack, "top")
        for i, stmt in enumerate(hist):
            self.step(i, stmt)
            if self.ref_status != "ok" or self.impl_exc is not None or self.mismatch:
                break

    def step(self, i, stmt):
        try:
            with sandbox.watchdog(8.0):
                self.vm.loop_depth = []
                self.vm.run(stmt, self.frame)
        except refvm.OutOfDomain as e:
            self.ref_status = "ood: " + str(e)[:60]
            return
        except (refvm.Fuel, RecursionError, sandbox.CaseTimeout):
            self.ref_status = "fuel"
            return
        text = progs.render_seq(stmt)
        try:
            code = _CODE.get(text)
            if code is None:
                code = compile(sandbox.transpile(text), "<c01>", "exec")
                _CODE[text] = code
            with sandbox.watchdog(3.0), contextlib.redirect_stdout(self.out):
                exec(code, self.ns)
            with sandbox.watchdog(3.0), contextlib.redirect_stdout(io.StringIO()):
                impl_stack = tuple(sandbox.canon(x) for x in self.stack)
        except BaseException as e:  # noqa
            if isinstance(e, KeyboardInterrupt):
                raise
            self.impl_exc = e
            self.mismatch = (i, "implementation raises where the reference semantics is defined", None,
                             type(e).__name__ + ": " + str(e)[:80])
            return
        ref_stack = tuple(canon_ref(x) for x in self.ref_stack)
        if impl_stack != ref_stack:
            self.mismatch = (i, "stack differs from the reference semantics after a statement",
                             [sandbox.show(x) for x in ref_stack], [sandbox.show(x) for x in impl_stack])
        elif self.out.getvalue() != "".join(self.vm.out):
            self.mismatch = (i, "printed text differs from the reference semantics after a statement", "".join(self.vm.out), self.out.getvalue())
        elif self.ctx.inputs[0][1] != self.vm.inputs[0][1]:
            self.mismatch = (i, "input cursor differs from the reference semantics after a statement", self.vm.inputs[0][1], self.ctx.inputs[0][1])


_CODE = {}


def _bfs_shard(args):
    first_idx, depth, inputs_name = args
    part = explore.Partial()
    menu = statement_menu()
    inputs = INPUT_SETS[inputs_name]

    def build(hist):
        return Lock(hist, inputs)

    def canon(lk):
        vm = lk.vm
        n = max(1, len(inputs))
        return (tuple(canon_ref(x) for x in lk.ref_stack[-4:]), min(len(lk.ref_stack), 5),
                tuple(sorted((k, canon_ref(v)) for k, v in vm.globals.items())), canon_ref(vm.register),
                tuple(sorted(vm.functions)), vm.inputs[0][1] % n, vm.printed, lk.ref_status != "ok", lk.mismatch is not None)

    def enabled(lk, hist):
        if lk.ref_status != "ok" or lk.mismatch or lk.impl_exc is not None or len(lk.ref_stack) > 8:
            return []
        return menu

    def chk(hist, lk):
        part.count()
        if lk.ref_status != "ok":
            part.skip("reference out of domain / out of fuel in a statement sequence")
            return
        part.nontriv()
        part.outcome(hash(canon(lk)) % 99991)
        if lk.mismatch:
            i, what, exp, obs = lk.mismatch
            text = " ".join(progs.render_seq(s) for s in hist)
            part.violation("sequence", {"program": text, "statements": [progs.render_seq(s) for s in hist], "after_statement": i,
                                        "inputs": list(inputs)},
                           what, {"constructs": construct_tags(hist[i]), "section": "bfs", "what": what.split()[0]}, exp, obs,
                           size=len(hist) * 1000 + len(text))

    states, transitions, maxd, dedup = explore.bfs([menu[first_idx]], enabled, build, canon, chk, depth - 1)
    lk0 = build([menu[first_idx]])
    chk([menu[first_idx]], lk0)
    part.section("bfs", states=states, transitions=transitions, dedup_hits=dedup)
    return part.data()


# ------------------------------------------------------------------ F: flags through the real execute_vyxal
FLAG_SETS = ["", "O", "o", "j", "s", "W", "H", "M", "m"]


def _flag_shard(args):
    progs_, input_names = args
    part = explore.Partial()
    for p in progs_:
        text = progs.render_seq(p)
        for nm in input_names:
            inputs = INPUT_SETS[nm]
            for fl in FLAG_SETS:
                preset = [100] if "H" in fl else None
                ref = run_ref(p, inputs, fl, preset=preset, finish=True)
                part.count()
                if ref[0] != "ok":
                    part.skip("out of the reference's domain / fuel (flags)")
                    continue
                out, exc = sandbox.execute_vyxal(text, fl, [repr(x) for x in inputs], timeout=3.0)
                if isinstance(exc, sandbox.CaseTimeout):
                    out, exc = sandbox.execute_vyxal(text, fl, [repr(x) for x in inputs], timeout=20.0)
                    if isinstance(exc, sandbox.CaseTimeout):
                        part.cap("execute_vyxal did not return within 20 s where the reference terminates: %s flags=%s" % (text, fl))
                        continue
                part.nontriv()
                part.outcome((fl, exc is None))
                size = progs.size_seq(p) * 100 + len(text) + 10
                case = {"program": text, "flags": fl, "inputs": [repr(x) for x in inputs]}
                tags = {"constructs": construct_tags(p), "section": "flags", "flag": fl}
                if exc is not None:
                    part.violation("flags", case, "execute_vyxal raises where the reference semantics is defined",
                                   dict(tags, what=type(exc).__name__), ref[2], type(exc).__name__ + ": " + str(exc)[:80], size=size)
                elif out != ref[2]:
                    part.violation("flags", case, "stdout of execute_vyxal differs from the reference semantics (implicit output / flags)",
                                   dict(tags, what="stdout"), ref[2], out, size=size)
    return part.data()


def run(tier, seed):
    rep = Report(PROP, tier, seed, "model_checking")
    quick = tier == "quick"
    # E1
    if quick:
        g = Gen(ATOMS_MID, mods=True, rich=False)
        p3 = g.programs(3)
        explore.pmap(_e1_shard, [(c, ["none", "2,5"], "E1 size<=3 mid alphabet") for c in explore.chunks(p3, 128)], rep, seed)
        n_e1 = len(p3)
    else:
        g = Gen(ATOMS_FULL, mods=True, rich=True)
        p3 = g.programs(3)
        explore.pmap(_e1_shard, [(c, ["none", "3", "2,5", "list"], "E1 size<=3 full alphabet") for c in explore.chunks(p3, 256)], rep, seed)
        g4 = Gen(ATOMS_CORE, mods=False, rich=False)
        p4 = g4.seqs(4)
        explore.pmap(_e1_shard, [(c, ["2,5"], "E1 size 4 core alphabet") for c in explore.chunks(p4, 256)], rep, seed)
        n_e1 = len(p3) + len(p4)
    # E1b: every modifier around an explicit lambda of arity 2 / 3 whose body has SEVERAL consuming elements (state that only exists
    # while the wrapped function runs), and eager higher-order elements (sort, reduce) with impure bodies over lists with repeats
    lam_bodies = {2: [(E("+"), E("d")), (E(":"), E("+"), E("-")), (E("$"), E("-")), (E("-"), E("!"), E("+")), (E("n"),), (E("+"), E("n"), E("L"), E("+"))],
                  3: [(E("-"), E("-")), (E("+"), E("*")), (E("_"), E("$"), E("-")), (E("n"),)],
                  1: [(E(":"), E("+")), (E("d"), E("!"), E("+")), (E("n"),), (E("n"), E("L"))],
                  None: [(E("n"),), (E("n"), E("∑")), (E("+"), E("n"), E("L"), E("+"))]}   # the context value of a lambda is what it RECEIVED
    modlam = []
    for m_ in ("~", "&", "ß", "ƒ", "ɖ", "v"):
        for k_, bodies_ in lam_bodies.items():
            for b_ in bodies_:
                for pre in ((N(1), N(2), N(3)), (N(9), N(4), N(2)), (N(5),), (("list", ((N(3),), (N(4),))), N(2))):
                    modlam.append(pre + (("mod", m_, (("lam", k_, b_),)),))
    for m_ in ("₌", "₍"):
        for b_ in lam_bodies[2]:
            modlam.append((N(1), N(2), N(3), ("mod", m_, (("lam", 2, b_), E("-")))))
            modlam.append((N(1), N(2), N(3), ("mod", m_, (E("›"), ("lam", 2, b_)))))
    rep_list = ("list", ((N(2),), (N(1),), (N(2),)))
    impure = [(rep_list, ("sort", (E(","), N(0)))), (rep_list, ("sort", (E("…"),))), (rep_list, ("sort", (E("…"), E("N")))),
              (N(0), E("£"), rep_list, ("sort", (E("¥"), E("›"), E("£"), E("¥"), E("N"))), E("¥")),
              (N(0), E("£"), rep_list, ("sort", (E("_"), E("¥"), E("›"), E(":"), E("£"))), E("¥")),
              (rep_list, ("lam", 2, (E("…"), E("+"))), E("R")), (N(0), E("£"), rep_list, ("lam", 2, (E("+"), E("¥"), E("›"), E("£"))), E("R"), E("¥")),
              (E("?"), ("sort", (E(","), N(0)))), (E("?"), ("sort", (E("…"), E("N"))))]
    # lambdas that read their context value, called by reduce / map / filter with a number of arguments that differs from the declared arity
    for k_ in (None, 1, 2, 3):
        for b_ in ((E("n"),), (E("n"), E("L")), (E("+"), E("n"), E("L"), E("+"))):
            impure += [(rep_list, ("lam", k_, b_), E("R")), (rep_list, ("lam", k_, b_), E("M")), (N(3), ("lam", k_, b_), E("M")),
                       (N(3), N(4), ("lam", k_, b_), E("†")), (rep_list, ("lam", k_, b_), E("F"))]
    # else-if chains with 3, 4 and 5 branches ([A|c|B], [A|c|B|C], [A|c|B|d|C]) under every combination of truthy / falsy conditions
    for c0 in (0, 1):
        for c1 in (0, 1):
            impure.append((N(5), N(c0), ("if", ((N(1),), (N(c1),), (N(2),)))))
            impure.append((N(5), N(c0), ("if", ((N(1),), (N(c1),), (N(2),), (N(3),)))))
            impure.append((N(c0), ("if", ((N(1), E(",")), (N(c1),), (N(2), E(","))))))
            for c2 in (0, 1):
                impure.append((N(5), N(c0), ("if", ((N(1),), (N(c1),), (N(2),), (N(c2),), (N(3),)))))
    # named functions whose bodies pop MORE than they were given (the arguments are then read again, in a defined order), with counted,
    # named and mixed parameter lists
    for params, pre in (((2,), (N(3), N(4))), ((3,), (N(1), N(2), N(3))), ((1, 1), (N(3), N(4))), ((1, "a"), (N(3), N(10))),
                        (("a", 1), (N(3), N(10))), ((2, "a"), (N(3), N(4), N(10))), ((1,), (N(7),))):
        for body in ((E("+"), E("+")), (E("-"), E("-")), (E("+"), E("+"), E("+"), E("+")), (E("_"), E("_"), E("_")),
                     (E("-"),), (E("n"),), (E("!"),)):
            gets = tuple(("get", p_) for p_ in params if isinstance(p_, str))
            impure.append(pre + (("fndef", "f", params, gets + body), ("fncall", "f")))
    explore.pmap(_e1_shard, [(c, list(INPUT_SETS), "E1b modifier x multi-element lambda / impure eager bodies")
                             for c in explore.chunks(modlam + impure, 32)], rep, seed)
    # E2
    ce = chain_elements()
    cd = 3 if quick else 4
    firsts = [[(a,)] for a in range(len(ce))] if cd < 2 else [[(a, b)] for a in range(len(ce)) for b in range(len(ce))]
    explore.pmap(_e2_shard, [([(a,)], 1, ["2,5"]) for a in range(len(ce))], rep, seed)
    explore.pmap(_e2_shard, [(f, cd, ["2,5"] if quick else ["none", "2,5"]) for f in firsts], rep, seed)
    pce = probed_chain_elements()
    pd = 3 if quick else 4
    explore.pmap(_e2_shard, [([(a,)], 1, ["2,5"], True) for a in range(len(pce))], rep, seed)
    explore.pmap(_e2_shard, [([(a, b)], pd, ["2,5"], True) for a in range(len(pce)) for b in range(len(pce))], rep, seed)
    # S
    menu = statement_menu()
    depth = 2 if quick else 3
    explore.pmap(_bfs_shard, [(i, depth, "2,5") for i in range(len(menu))], rep, seed)
    # F
    gf = Gen(ATOMS_MID, mods=False, rich=False)
    pf = gf.programs(2) if quick else Gen(ATOMS_MID, mods=True, rich=False).programs(3)
    # every construct that turns a number into a range (the M / m flags change what it iterates over)
    body_sets = [(E("n"),), (N(2), E("<")), (E("d"),), (E("n"), E(","))]
    rng = []
    for k in (3, 0, 1):
        for b in body_sets:
            rng += [(N(k), ("for", None, b)), (N(k), ("for", "i", (("get", "i"),) + b)), (N(k), ("map", b)), (N(k), ("filter", b)),
                    (N(k), ("lam", None, b), E("M")), (N(k), ("lam", None, b), E("F")), (("lam", None, b), N(k), E("M")),
                    (("lam", None, b), N(k), E("F")), (N(k), ("mod", "~", (("lam", None, b),)))]
        rng += [(N(k), ("mod", "v", (E("d"),))), (N(k), ("mod", "v", (E("›"),))), (N(k), ("mod", "~", (E("d"),))), (N(k), E("ɾ")), (N(k), N(2), ("mod", "v", (E("+"),)))]
    # function values reaching a printing element or the implicit output (printing a function calls it on the stack)
    fns = [("lam", None, (N(1), E("+"))), ("lam", None, (E("d"),)), ("lam", 2, (E("+"),)), ("lam", 0, (N(7),)), ("mod", "⁽", (E("d"),))]
    fnp = []
    for f in fns:
        fnp += [(f,), (N(3), f), (N(3), f, E(",")), (N(3), N(4), f, E("…")), (N(3), f, E("₴")), (N(2), ("for", None, (N(3), f, E(","))))]
    # a lazy value that has been looked at through a second reference (so its memo is partial) and is then printed
    sources = [(N(k), E("ɾ")) for k in (4, 2, 1, 0)] + [(N(3), ("map", (E("›"),))), (N(3), E("ɾ"), ("mod", "v", (E("d"),)))]
    observers = [(), (E(":"), E("h"), E("_")), (E(":"), E("$"), E("h"), E("_")), (E(":"), ("if", ((N(1),), (N(2),))), E("_")),
                 (E("£"), E("¥"), E("h"), E("_"), E("¥")), (("set", "a"), ("get", "a"), E("h"), E("_"), ("get", "a")),
                 (E(":"), E("L"), E("_")), (E(":"), E("t"), E("_")), (E(":"), E("h"), E("_"), E(":"), E("t"), E("_"))]
    printers = [(), (E(","),), (E("…"),), (E("…"), E("h")), (E("₴"),), (E("w"),), (N(7), E('"'))]
    lzp = [s_ + o + pr for s_ in sources for o in observers for pr in printers]
    pf = list(pf) + rng + fnp + lzp
    explore.pmap(_flag_shard, [(c, ["none", "2,5"]) for c in explore.chunks(pf, 128)], rep, seed)
    b = rep.sections.get("bfs", {})
    rep.extra.update({
        "states": int(b.get("states", 1)) or 1, "transitions": int(b.get("transitions", 1)) or 1,
        "traces_validated_against_impl": int(b.get("transitions", 0)) + rep.evaluations,
        "programs_by_size": n_e1, "statement_menu": len(menu), "bfs_depth": depth, "chain_depth": cd, "flag_programs": len(pf),
        "allow_skips": True,
        "explanation": "every program / statement sequence is rendered from my own AST, executed by the real lexer+parser+transpiler+exec "
                       "and by the reference VM (vmc/core/refvm.py); stacks, stdout and the input cursor are compared (after every "
                       "statement in the BFS)",
    })
    rep.rule = ("(E1) every program of <=3 nodes over the %s alphabet%s; (E2) every nesting chain of depth <=%d over 9 structure kinds x 4 leaf "
                "bodies; (S) BFS over sequences of %d statements to depth %d with dedup on (top of stack, height, variables, register, "
                "functions, cursor, printed); (F) %d programs x 9 flag sets through execute_vyxal. Programs outside the reference's domain "
                "(undocumented behaviour) or out of fuel are skipped and counted. Non-trivial = the reference defined a result."
                % ("mid (25 atoms)" if quick else "full (%d atoms), 4 input sets" % len(ATOMS_FULL),
                   "" if quick else " and every program of exactly 4 nodes over the 12-atom core alphabet", cd, len(menu), depth, len(pf)))
    rep.sample({"program": progs.render_seq((N(2), ("for", None, (E("n"), ("if", ((("break",),),)))))), "inputs": [2, 5]})
    rep.sample({"program": progs.render_seq(ce[3][1](ce[4][1](LEAVES[0]))), "inputs": [2, 5]})
    rep.sample({"program": progs.render_seq((("mod", "₌", (E("+"), E("-"))),)), "flags": "W"})
    rep.assumptions = ["reference VM reading decisions R1-R11 (DESIGN.md)", "first-order element values and value formatting are shared with the implementation",
                       "side effects inside lazily evaluated bodies (map/filter/vectorise/scan) are outside the documented semantics and skipped"]
    return rep


def replay(art):
    return "replay C01 by re-running the check (programs are stored as text + AST repr in the artefact)"
