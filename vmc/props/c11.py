"""C11 - input is a cyclic stream shared by explicit and implicit reads.

Shape (S): every read history is executed on the real interpreter (get_input wrapped from outside, no source hook)
in lock-step with a cursor automaton; the delivered values, the cursor and the scope depth are compared."""
from __future__ import annotations

import itertools

from vmc.core import explore, sandbox
from vmc.core.report import Report

PROP = "C11"
INPUT_LISTS = [[], [101], [101, 102], [101, 102, 103], [101, 102, 103, 104], [[201, 202]], [[], 101], [[301, 302], [303]]]

# ---------------------------------------------------------------- operations (AST) and rendering
Q = ("?",)
P1 = ("pop", 1)      # _
P2 = ("pop", 2)      # "   (pair)
P3 = ("pop", 3)      # ∇   (rotate)
PUSH = ("push",)     # 1
BRK = ("break",)     # X: early return from the innermost lambda / function (a no-op at top level and in a list item)


def lam(k, *body):
    return ("lam", k, tuple(body))


def fn(k, *body):
    return ("fn", k, tuple(body))


def hof(elem, k, *body):
    """a lambda declared with k parameters, called once per item of ⟨7|8⟩ by a higher-order element (map M / filter F) - i.e. through
    the library's apply protocol with ONE argument, not through the call element - and forced in order by taking the length"""
    return ("hof", elem, k, tuple(body))


def condq(c):
    """`c ß?`: the conditional-execute modifier around the input element (an explicit read happens iff c is truthy, and nothing else is read)"""
    return ("condq", c)


def lst(*items):
    return ("list", tuple(tuple(i) for i in items))


def loop(*body):
    return ("loop", tuple(body))


def render(op):
    t = op[0]
    if t == "?":
        return "?"
    if t == "pop":
        return {1: "_", 2: '"', 3: "∇"}[op[1]]
    if t == "push":
        return "1 "
    if t == "break":
        return "X"
    if t == "lam":
        return "λ%d|%s;†" % (op[1], "".join(render(o) for o in op[2]))
    if t == "condq":
        return "%d ß?" % op[1]
    if t == "hof":
        return "⟨7|8⟩λ%d|%s;%sL_" % (op[2], "".join(render(o) for o in op[3]), op[1])
    if t == "fn":
        return "@f%s|%s;@f;" % ((":%d" % op[1]) if op[1] else "", "".join(render(o) for o in op[2]))
    if t == "list":
        return "⟨" + "|".join("".join(render(o) for o in it) for it in op[1]) + "⟩"
    if t == "loop":
        return "2(" + "".join(render(o) for o in op[1]) + ")"
    raise ValueError(op)


# ---------------------------------------------------------------- the model: cursor automaton + concrete stacks
class _Ret(Exception):
    pass


class Model:
    def __init__(self, inputs):
        self.scopes = [[list(inputs), 0]]
        self.log = []
        self.frames = []

    def explicit(self):
        vals, k = self.scopes[0]
        if vals:
            v = vals[k % len(vals)]
            self.scopes[0][1] += 1
        else:
            v = 0
        self.log.append(("explicit", 1, v))
        return v

    def implicit(self):
        sc = self.scopes[-1]
        if sc[0]:
            v = sc[0][sc[1] % len(sc[0])]
            sc[1] += 1
        elif len(self.scopes) == 1:
            v = 0
        else:
            v = 0
        self.log.append(("implicit", len(self.scopes), v))
        return v

    def pop(self, stack, n):
        out = []
        for _ in range(n):
            out.append(stack.pop() if stack else self.implicit())
        return out

    def run(self, ops, stack):
        for op in ops:
            t = op[0]
            if t == "?":
                stack.append(self.explicit())
            elif t == "push":
                stack.append(1)
            elif t == "break":
                if self.frames and self.frames[-1] in ("lam", "fn"):
                    raise _Ret()
                # top level, list item, loop-free: no-op (loops are handled by the loop itself)
                if self.frames and self.frames[-1] == "loop":
                    raise _Ret()
            elif t == "pop":
                if op[1] == 1:
                    self.pop(stack, 1)
                elif op[1] == 2:
                    rhs, lhs = self.pop(stack, 2)
                    stack.append([lhs, rhs])
                else:
                    third, second, first = self.pop(stack, 3)
                    stack += [third, first, second]
            elif t == "lam":
                args = self.pop(stack, op[1])          # popped from the caller, in the caller's scope
                inner = list(args)
                self.scopes.append([list(args)[::-1], 0])
                self.frames.append("lam")
                try:
                    self.run(op[2], inner)
                except _Ret:
                    pass
                self.frames.pop()
                res = self.pop(inner, 1)[0]            # the result is the top of the lambda's stack (a read if empty)
                self.scopes.pop()
                stack.append(res)
            elif t == "condq":
                stack.append(op[1])
                if self.pop(stack, 1)[0]:
                    stack.append(self.explicit())
            elif t == "hof":
                for x in (7, 8):
                    inner = [x]                       # exactly the values it was handed, whatever arity it declares
                    self.scopes.append([[x], 0])
                    self.frames.append("lam")
                    try:
                        self.run(op[3], inner)
                    except _Ret:
                        pass
                    self.frames.pop()
                    self.pop(inner, 1)
                    self.scopes.pop()
            elif t == "fn":
                args = self.pop(stack, op[1])
                inner = list(args)
                self.scopes.append([list(args)[::-1], 0])
                self.frames.append("fn")
                try:
                    self.run(op[2], inner)
                except _Ret:
                    pass
                self.frames.pop()
                self.scopes.pop()
                stack += inner
            elif t == "list":
                items = []
                for it in op[1]:
                    local = list(stack)
                    self.frames.append("item")
                    self.run(it, local)
                    self.frames.pop()
                    if local:
                        items.append(self.pop(local, 1)[0])
                stack.append(items)
            elif t == "loop":
                stack.append(2)
                self.pop(stack, 1)
                for _ in range(2):
                    self.frames.append("loop")
                    try:
                        self.run(op[1], stack)
                    except _Ret:
                        self.frames.pop()
                        break
                    self.frames.pop()
        return stack


# ---------------------------------------------------------------- the real side
_LOG = []
_DEPTH = [0]
_installed = [False]


def install():
    if _installed[0]:
        return
    sandbox.setup()
    import vyxal.helpers as H

    real = H.get_input

    def logged(ctx):
        outer = _DEPTH[0] == 0
        kind = "explicit" if ctx.use_top_input else "implicit"
        depth = len(ctx.inputs)
        _DEPTH[0] += 1
        try:
            v = real(ctx)
        finally:
            _DEPTH[0] -= 1
        if outer:
            _LOG.append((kind, 1 if kind == "explicit" else depth, v))
        return v

    logged.__wrapped__ = real
    H.get_input = logged          # what helpers.pop calls
    _installed[0] = True
    _installed.append(logged)


_CODE = {}


def run_real(program, inputs):
    install()
    code = _CODE.get(program)
    if code is None:
        code = compile(sandbox.transpile(program), "<c11>", "exec")
        if len(_CODE) < 200000:
            _CODE[program] = code
    del _LOG[:]
    _DEPTH[0] = 0
    ns = sandbox.base_namespace()
    ns["get_input"] = _installed[1]   # what the `?` template calls
    ctx = sandbox.fresh_ctx(inputs)
    r = sandbox.exec_code(code, ctx=ctx, ns=ns, stack=[], timeout=5.0)
    ctx.stacks.append(r.stack)
    return r, list(_LOG), ctx


def plain(v):
    return sandbox.pyval(v)


def check(part, ops, inputs):
    program = "".join(render(o) for o in ops)
    m = Model(inputs)
    mstack = m.run(ops, [])
    r, log, ctx = run_real(program, inputs)
    part.count()
    case = {"program": program, "inputs": inputs, "history": [render(o) for o in ops]}
    size = len(ops) * 100 + len(program) + len(inputs)
    tags = {"last": ops[-1][0] if ops else "", "n_inputs": len(inputs)}
    part.outcome((len(m.log), m.scopes[0][1] % max(1, len(inputs))))
    if isinstance(r.exc, sandbox.CaseTimeout):
        part.cap("backstop hit (slow is not wrong): " + program)
        return
    if r.exc is not None:
        part.violation("reads", case, "read history raises on the real interpreter", dict(tags, what="raises " + type(r.exc).__name__),
                       "runs", "%s: %s" % (type(r.exc).__name__, str(r.exc)[:80]), size=size)
        return
    got = [(k, d, plain(v)) for k, d, v in log]
    want = [(k, d, v) for k, d, v in m.log]
    if got != want:
        i = next((j for j, (a, b) in enumerate(zip(got, want)) if a != b), min(len(got), len(want)))
        part.violation("reads", case, "sequence of delivered input values differs from the cursor automaton",
                       dict(tags, what="read #%d kind/scope/value" % i, kind=(want[i][0] if i < len(want) else "extra")),
                       want, got, size=size)
        return
    cur = ctx.inputs[0][1]
    if cur != m.scopes[0][1] or len(ctx.inputs) != 1:
        part.violation("reads", case, "input cursor / scope stack differs from the cursor automaton",
                       dict(tags, what="cursor"), [m.scopes[0][1], 1], [cur, len(ctx.inputs)], size=size)
        return
    if plain(r.stack) == mstack:
        part.section("agreement", stacks_equal=1)
    else:
        part.section("agreement", stacks_differ_remark=1)
    part.nontriv()


# ---------------------------------------------------------------- end to end: the program's inputs as main.execute_vyxal receives them
# (text, value) pairs; the falsy values matter: an input that evaluates to 0 / [] / "" is still an input
E2E_TEXTS = [("3", 3), ("0", 0), ("[]", []), ("[1,2]", [1, 2]), ('""', ""), ("abc", "abc")]
# (program text, reads it performs as (printed?) flags) - every operation leaves the stack empty
E2E_OPS = [("?,", (True,)), (",", (True,)), ("_", (False,)), ("λ?,;†_", (False, True))]
_PRINTED = {}


def printed_form(value):
    k = repr(value)
    if k not in _PRINTED:
        import contextlib
        import io

        from vyxal.elements import vy_print

        buf = io.StringIO()
        with contextlib.redirect_stdout(buf):
            vy_print(value, ctx=sandbox.fresh_ctx())
        _PRINTED[k] = buf.getvalue()
    return _PRINTED[k]


def check_e2e(part, ops, texts, online):
    sandbox.setup()
    program = "".join(o[0] for o in ops)
    values = [dict(E2E_TEXTS)[t] for t in texts]
    k = 0
    want = ""
    printed = False
    reads = [f for o in ops for f in o[1]]
    for f in reads + [None]:
        if f is None and printed:
            break
        v = values[k % len(values)] if values else 0
        k += 1
        if f is None or f:
            want += printed_form(v)
            printed = True
    part.count()
    case = {"program": program, "input_texts": list(texts), "online": online}
    if online:
        out = {1: "", 2: ""}
        _, exc = sandbox.execute_vyxal(program, "", "\n".join(texts), online=True, out=out)
        got = out[1] if exc is None and not out[2] else "%s%s | %s" % (out[1], out[2][-80:], type(exc).__name__)
    else:
        got, exc = sandbox.execute_vyxal(program, "", list(texts))
        if exc is not None:
            got = "%s | %s: %s" % (got, type(exc).__name__, str(exc)[:60])
    if isinstance(exc, sandbox.CaseTimeout):
        part.cap("backstop hit (slow is not wrong): " + program)
        return
    part.outcome(("e2e", len(texts), k % max(1, len(texts))))
    part.nontriv()
    if got != want:
        part.violation("e2e", case, "values delivered to a whole program run differ from input k mod n (execute_vyxal)",
                       {"n_inputs": len(texts), "online": online, "last_input": texts[-1] if texts else "", "what": "printed reads"},
                       want, got, size=len(program) * 10 + len(texts))


def _e2e_shard(args):
    text_lists, depth = args
    part = explore.Partial()
    n = 0
    for texts in text_lists:
        for d in range(1, depth + 1):
            for ops in itertools.product(E2E_OPS, repeat=d):
                for online in (False, True):
                    check_e2e(part, ops, texts, online)
                    n += 1
    part.section("end_to_end", runs=n)
    return part.data()


MENU_A = [Q, P1, P2, P3, PUSH, lam(1, P1, P1), lam(2, P1, P1, P1, Q), fn(1, P1, P1), lst((P1,), (Q,)), fn(1, P1, BRK, P1),
          hof("M", 2, P1, P1, Q), condq(1)]
INNER = [(), (P1,), (Q,), (P1, P1), (P2,), (Q, P1), (P1, P1, P1), (PUSH, P3), (lam(1, P1, P1),), (P1, lam(0, P1), P1)]


def menu_b():
    out = list(MENU_A)
    for k in (0, 1, 2, 3):
        for body in INNER:
            out.append(lam(k, *body))
    for k in (0, 1, 2, 3):       # a function declared with k parameters whose body pops more than k values reads its arguments cyclically
        for body in INNER + [(P1, P1, P1, P1), (P3, P1, P1)]:
            out.append(fn(k, *body))
    out += [condq(1), condq(0)]
    out += [fn(1, P1, BRK, P1), fn(2, P1, BRK, Q), fn(0, BRK, P1), lam(1, P1, BRK, P1), lam(2, P1, P1, BRK, P1), lam(0, BRK), loop(P1, BRK, Q),
            fn(1, lam(1, P1, BRK, P1), P1), lst((BRK, P1), (Q,)), fn(1, loop(BRK), P1, P1)]
    for k in (1, 2, 3):
        for body in INNER[:8]:
            out.append(hof("M", k, *body))
    out += [hof("F", 2, P1, P1), hof("F", 3, P2), hof("M", 2, P1, BRK, P1), hof("F", 1, Q, P1, P1)]
    out += [lst((P1, P1), (P2,)), lst((Q,), (Q, P1), (P1,)), loop(P1), loop(Q), loop(P2), loop(lam(1, P1, P1)),
            lam(1, fn(1, P1, P1)), fn(2, lam(1, P1, P1), P1)]
    seen = []
    for o in out:
        if o not in seen:
            seen.append(o)
    return seen


def _shard(args):
    firsts, menu, depth, input_lists = args[:4]
    minlen = args[4] if len(args) > 4 else 0
    part = explore.Partial()
    for f in firsts:
        f = f if isinstance(f[0], tuple) else (f,)     # a prefix of operations (one operation or a pair)
        for n in range(max(0, minlen - len(f)), depth - len(f) + 1):
            for rest in itertools.product(menu, repeat=n):
                ops = f + rest
                for inputs in input_lists:
                    check(part, ops, inputs)
    return part.data()


def _bfs_shard(args):
    inputs, menu, depth = args
    part = explore.Partial()

    def build(hist):
        m = Model(inputs)
        st = m.run(hist, [])
        return (m, st)

    def canon(state):
        m, st = state
        n = max(1, len(inputs))
        return (m.scopes[0][1] % n, min(len(st), 3))

    def enabled(state, hist):
        return menu

    def chk(hist, state):
        check(part, tuple(hist), inputs)

    states, transitions, maxd, dedup = explore.bfs([], enabled, build, canon, chk, depth)
    part.section("bfs", states=states, transitions=transitions, dedup_hits=dedup)
    return part.data()


def run(tier, seed):
    rep = Report(PROP, tier, seed, "model_checking")
    quick = tier == "quick"
    da = 4 if quick else 5
    sh = [([f], MENU_A, 1, INPUT_LISTS) for f in MENU_A] + [([(f, g)], MENU_A, da, INPUT_LISTS) for f in MENU_A for g in MENU_A]
    if not quick:   # length exactly 6 over the first ten operations
        sh += [([(f, g)], MENU_A[:10], 6, INPUT_LISTS, 6) for f in MENU_A[:10] for g in MENU_A[:10]]
    explore.pmap(_shard, sh, rep, seed)
    mb = menu_b()
    db = 2
    explore.pmap(_shard, [([f], mb, 1, INPUT_LISTS) for f in mb] + [([(f, g) for g in mb[i:i + 8]], mb, db, INPUT_LISTS) for f in mb for i in range(0, len(mb), 8)], rep, seed)
    core = mb[::3]       # thorough: histories of exactly 3 operations over every third operation of menu B (all 133^3 would be 19M runs)
    if not quick:
        explore.pmap(_shard, [([(f, g)], core, 3, INPUT_LISTS, 3) for f in core for g in core], rep, seed)
    n_hist = (sum(len(MENU_A) ** k for k in range(1, da + 1)) + (0 if quick else 10 ** 6)) * len(INPUT_LISTS) + (sum(len(mb) ** k for k in range(1, db + 1)) + (0 if quick else len(core) ** 3)) * len(INPUT_LISTS)
    explore.pmap(_bfs_shard, [(inp, mb, 12) for inp in INPUT_LISTS], rep, seed)
    names = [t for t, _ in E2E_TEXTS]
    tl = [tuple(c) for n in range(0, 4) for c in itertools.product(names if n < 3 else names[:4], repeat=n)]
    explore.pmap(_e2e_shard, [(c, 3 if quick else 4) for c in explore.chunks(tl, 6)], rep, seed)
    b = rep.sections.get("bfs", {})
    rep.extra.update({
        "states": int(b.get("states", 1)) or 1,
        "transitions": int(b.get("transitions", 0)) + n_hist,
        "traces_validated_against_impl": int(b.get("transitions", 0)) + n_hist,
        "histories_no_dedup": n_hist,
        "menu_A": [render(o) for o in MENU_A], "menu_B_size": len(mb),
        "explanation": "every history is rendered to Vyxal text and executed by the real lexer/parser/transpiler/exec; helpers.get_input "
                       "is wrapped from outside to log (kind, scope depth, value) of each outermost read; the model is a cursor automaton "
                       "with concrete stacks",
    })
    rep.rule = ("input lists of length 0..4 (distinct sentinels) x ALL histories of length <=%d [thorough: plus length 6 over its first ten operations] over the 12-operation menu A "
                "(? _ \" ∇ push, λ1 / λ2 with inner reads, a named function, a list literal, an early return, a map over ⟨7|8⟩ with a λ2, the input element under the conditional-execute modifier) without dedup; ALL histories of length <=%d [thorough: plus length 3 over every third operation] over "
                "the %d-operation menu B (lambda arities 0-2 x 10 inner read sequences incl. nested lambdas, functions, list items, "
                "loops); BFS with dedup on (cursor mod n, stack height capped at 3) to depth 12 over menu B. Distinct = (history, inputs). "
                "End to end: main.execute_vyxal (offline and online) with every list of 0..3 input TEXTS over %d texts (incl. ones that evaluate "
                "to 0, [] and the empty string) x every sequence of <=%d reading operations (? , _ and a lambda with an explicit read), "
                "printed values compared with input k mod n."
                % (da, db, len(mb), len(E2E_TEXTS), 3 if quick else 4))
    rep.sample({"program": "".join(render(o) for o in (Q, P3, lam(2, P1, P1, P1, Q))), "inputs": [101, 102, 103]})
    rep.sample({"program": render(lam(1, P1, lam(0, P1), P1)), "inputs": [101]})
    rep.sample({"program": render(lst((P1,), (Q,))) + render(P2), "inputs": []})
    rep.assumptions = ["cursor automaton: explicit reads use scope 0; implicit reads use the innermost scope; an empty scope yields 0; "
                       "a call's arguments are offered deepest-first", "stack contents are compared as a remark only (not part of the verdict)"]
    return rep


def replay(art):
    c = art["case"]
    if "input_texts" in c:
        part = explore.Partial()
        by = {o[0]: o for o in E2E_OPS}
        ops, rest = [], c["program"]
        while rest:
            o = next(o for o in sorted(E2E_OPS, key=lambda o: -len(o[0])) if rest.startswith(o[0]))
            ops.append(o)
            rest = rest[len(o[0]):]
        check_e2e(part, tuple(ops), tuple(c["input_texts"]), c["online"])
        return part.d["violations"] or None
    # rebuild ops from the rendered history is not possible in general: replay by program text against a re-derived model
    part = explore.Partial()
    mb = menu_b()
    by_text = {render(o): o for o in mb}
    try:
        ops = tuple(by_text[h] for h in c["history"])
    except KeyError:
        return "history uses an operation outside the menus"
    check(part, ops, c["inputs"])
    return part.d["violations"] or None
