"""C12 - interpreter context is balanced after every construct.

Shape (S): explicit-state search over statement sequences executed on the real interpreter (each top-level statement is
transpiled and exec'd separately in one namespace); the oracle is an INVARIANT on the four bookkeeping stacks, asserted at
every statement boundary; plus all nesting chains up to depth 4 with break/continue leaves."""
from __future__ import annotations

import contextlib
import io
import itertools

from vmc.core import explore, sandbox
from vmc.core.report import Report

PROP = "C12"

# ---------------------------------------------------------------- statements (program text; each is one or more complete statements)
ATOMS = ["0 ", "1 ", "2 ", "+", ":", "_", "$", "!", "n", "?", "W", "→a ", "←a ", ",", "…", "₴", "£", "¥", "3ɾ"]
STRUCTS = [
    "[1|2]", "[n]", "2(n)", "2(i|←i )", "⟨1|2⟩(n,)", "2→c {←c |←c ‹→c n}", "λn;†", "λ2|+;†", "2ɾƛn;", "2ɾƛn;L", "3ɾ'n;L", "3ɾµN;",
    "@f|n;@f;", "@g:1|n;@g;", "@f;", "⟨n|1⟩", "3ɾvd", "&+", "~+", "ßn", "ƒ+", "ɖ+", "₌+-", "₍+-", "⁽n†", "‡nn†", "≬nnn†", "vn",
    "`1 2+`Ė", "3ɾ,", "3ɾ…", "⟨3ɾ⟩,", "2ɾƛn;,", "λ1;,", "3ɾƛ›;…_",
]
EARLY = [
    "3(X)", "3(nx)", "3([X])", "3(1[[x]])", "3(n[X|x])", "1{X}", "2→c {←c |←c ‹→c x}", "2→c {←c |←c ‹→c [X]}", "λX;†", "1λ[X];†",
    "λ1[X|2];†", "@h|1X2;@h;", "@h|1[X];@h;", "3ɾƛX;L", "3ɾƛ[X];L", "3ɾ'X;L", "⟨X|1⟩", "3(⟨X⟩)", "3(⟨x⟩)", "3(λX;†)", "λ3(X);†",
    "λ2(nx);†", "3(vX)", "3λ:[‹x];†", "2(1{X})", "2(2(X)X)", "@h|2(X)n;@h;", "λ2(X)X;†", "2(λ1[X];†x)", "3ɾƛ2(X);L", "1{λX;†X}",
    "0{›:1=[x]:3=[X]}", "0{›:2<[x]X}", "2(0{›:1=[x]:3=[X]}n)", "λ0{›:1=[x]:3=[X]}n;†", "3ɾ…,", "3ɾ→a ←a L_←a ,", "3ɾ→a 2(←a ,)", "3ɾ'4>;,",
    "⟨⟩", "⟨1|2_⟩", "⟨_⟩", "⟨1|⟩_ 4`5+`Ė", "7λ3(1 2v+X);†", "3(1 2v+X)", "λ0|5X;†", "λ0|X;†", "4 5λ2|X;†", "1(1→c {X←c |0→c })", "2(1→c {x←c |0→c })", "λ1→c {X←c |0→c };†", "1(0 1{X|})", "@h:1|X;4@h;", "@h:a|←a X;4@h;", "7λλ0|1X;†__;†",
    "3(i|X)", "3(i|nx)", "2(i|←i [X])", "5λ3(i|X)n;†", "2(3(i|x)n,)", "3(i|n,)", "@h|2(i|X)n;@h;", "2(i|2(j|X)n,)",
]
PROBES = ["n", "λn;†", "2(n)", "`n`Ė", "@p|n;@p;", "2ɾƛn;L"]
MENU = ATOMS + STRUCTS + EARLY

# chain elements: (name, prefix, suffix, is_loop)
CHAIN = [
    ("if", "1[", "]", False), ("if-else", "0[1|", "]", False),
    ("for", "2(", ")", True), ("while", "2→%s {←%s |←%s ‹→%s ", "}", True),
    ("lambda", "λ", ";†", False), ("map", "2ɾƛ", ";L", False), ("function", "@f|", ";@f;", False), ("list", "⟨", "⟩", False),
    ("filter", "2ɾ'", ";L", False),
    ("while-forever", "0→%s {←%s ›→%s ←%s 2=[X]", "}", True),   # a loop without a condition, left with X after two rounds (own counter variable)
    ("while-cond", "1→%s {", "←%s |0→%s }", False),   # the inner construct sits in the CONDITION of a while loop (evaluated twice)
    ("lambda0", "λ0|", ";†", False),              # a lambda called with zero arguments
    ("lambda2", "4 5λ2|", ";†", False),
    ("function-args", "4 5@z:1:b|", ";@z;", False),
    ("for-named", "2(j|", ")", True),             # a for loop with a named variable
]
LEAVES = ["X", "x", "n", "n,", "1X2", ":[X]", "1 2v+X", "[X]9"]


def chain_ok(chain, leaf):
    """`x` outside a loop is a recursion (diverges unless guarded) or undefined at top level: only generate it where the nearest
    enclosing non-if structure is a loop."""
    if "x" in leaf:
        for c in reversed(chain):
            if c[0] in ("if", "if-else"):
                continue
            return c[3]
        return False
    return True


def chain_text(chain, leaf):
    # every nested while gets its own counter variable
    def sub(t, i):
        return t % (("cdefg"[i],) * t.count("%s")) if "%s" in t else t

    pre = "".join(sub(c[1], i) for i, c in enumerate(chain))
    return pre + leaf + "".join(sub(c[2], len(chain) - 1 - j) for j, c in enumerate(reversed(chain)))


# ---------------------------------------------------------------- execution
_CODE = {}


def code_of(text):
    c = _CODE.get(text)
    if c is None:
        c = compile(sandbox.transpile(text), "<c12>", "exec")
        if len(_CODE) < 100000:
            _CODE[text] = c
    return c


class State:
    __slots__ = ("ns", "ctx", "stack", "exc", "boundary_violation", "printed")


def snapshot(ctx, stack):
    return {
        "context_values": sandbox.pyval(ctx.context_values, limit=8),
        "inputs_depth": len(ctx.inputs),
        "stacks_depth": len(ctx.stacks),
        "stacks_ok": len(ctx.stacks) == 1 and ctx.stacks[0] is stack,
        "function_stack_depth": len(ctx.function_stack),
    }


GOOD = {"context_values": [0], "inputs_depth": 1, "stacks_depth": 1, "stacks_ok": True, "function_stack_depth": 0}


def build(hist, inputs=(3, 4)):
    st = State()
    st.ns = sandbox.base_namespace()
    st.ctx = sandbox.fresh_ctx(inputs)
    st.stack = []
    st.ctx.stacks.append(st.stack)
    st.ns["stack"], st.ns["ctx"] = st.stack, st.ctx
    st.exc = None
    st.boundary_violation = None
    out = io.StringIO()
    try:
        with sandbox.watchdog(2.0), contextlib.redirect_stdout(out):
            for i, stmt in enumerate(hist):
                exec(code_of(stmt), st.ns)
                snap = snapshot(st.ctx, st.stack)
                if snap != GOOD and st.boundary_violation is None:
                    st.boundary_violation = (i, snap)
    except BaseException as e:  # noqa
        if isinstance(e, KeyboardInterrupt):
            raise
        st.exc = e
    st.printed = out.getvalue()
    return st


def judge(part, hist, st, kind):
    part.count()
    if isinstance(st.exc, sandbox.CaseTimeout):
        part.skip("did not terminate within the backstop (the property speaks about terminating programs)")
        part.section("nonterminating", **{" ".join(hist)[:60]: 1})
        return False
    if st.exc is not None and st.boundary_violation is None:
        part.skip("program raises (out of domain)")
        return False
    part.nontriv()
    if st.boundary_violation is not None:
        i, snap = st.boundary_violation
        stmt = hist[i]
        diff = {k: v for k, v in snap.items() if GOOD[k] != v}
        part.violation(kind, {"program": " ".join(hist), "statements": list(hist), "after_statement": i},
                       "interpreter bookkeeping not restored after a top-level statement: " + ",".join(sorted(diff)),
                       {"statement": stmt.strip(), "leaked": ",".join(sorted(diff))}, GOOD, snap,
                       size=len(hist) * 1000 + len(stmt) + i)
        return False
    return True


def _chain_shard(args):
    firsts, depth = args[:2]
    leaves = args[2] if len(args) > 2 else LEAVES
    part = explore.Partial()
    for f in firsts:
        f = f if isinstance(f[0], tuple) else (f,)
        for d in range(0, depth - len(f) + 1):
            for rest in itertools.product(CHAIN, repeat=d):
                chain = tuple(f) + rest
                for leaf in leaves:
                    if not chain_ok(chain, leaf):
                        continue
                    text = chain_text(chain, leaf)
                    st = build([text, "n"])
                    part.outcome((len(chain), leaf, type(st.exc).__name__))
                    ok = judge(part, [text, "n"], st, "chain")
                    if ok and st.exc is None:
                        top = sandbox.pyval(st.stack[-1]) if st.stack else None
                        if top != 0:
                            part.violation("chain", {"program": text + " n"}, "n outside all loops and lambdas does not yield the top-level context",
                                           {"statement": text, "leaked": "n"}, 0, top, size=len(text))
    return part.data()


def canon(st):
    try:
        top = repr(sandbox.pyval(st.stack[-3:], limit=6))
    except Exception:
        top = "?"
    vars_ = tuple(sorted(k for k in st.ns if k.startswith("VAR_")))
    return (top, min(len(st.stack), 4), vars_, repr(sandbox.pyval(st.ctx.register, limit=6)), st.exc is not None,
            st.boundary_violation is not None, st.ctx.inputs[0][1] % 2 if st.ctx.inputs else 0)


def _bfs_shard(args):
    first, menu, depth = args
    part = explore.Partial()

    def enabled(st, hist):
        if st.exc is not None or st.boundary_violation is not None or len(st.stack) > 8:
            return []
        return menu

    def chk(hist, st):
        part.outcome(type(st.exc).__name__)
        judge(part, hist, st, "sequence")

    states, transitions, maxd, dedup = explore.bfs([first], enabled, build, canon, chk, depth - 1)
    # the initial history itself
    st0 = build([first])
    judge(part, [first], st0, "sequence")
    part.section("bfs", states=states, transitions=transitions, dedup_hits=dedup)
    return part.data()


def _pair_shard(args):
    """early-exit statement followed by every probe that can see a leak, from two initial stacks"""
    earlies, probes = args
    part = explore.Partial()
    for e in earlies:
        for pre in ([], ["2 "], ["⟨1|2⟩"]):
            for p in probes:
                hist = pre + [e, p, "n"]
                st = build(hist)
                part.outcome((e, p, type(st.exc).__name__))
                judge(part, hist, st, "sequence")
    return part.data()


def run(tier, seed):
    rep = Report(PROP, tier, seed, "model_checking")
    quick = tier == "quick"
    cd = 4
    base = CHAIN[:9]   # (CHAIN[14] = for-named is an extra element too)
    # (CHAIN[9:] = while-forever, while-cond, lambda0, lambda2, function-args)  depth 4 over the nine basic elements; the four extra ones (while condition, lambda arities, function
    extra = CHAIN[9:]  # arguments) are combined with everything up to depth 3
    old_leaves, new_leaves = [LEAVES[0], LEAVES[1], LEAVES[2], LEAVES[4]], [LEAVES[3], LEAVES[5]] + LEAVES[6:]
    sh = [([c], 1) for c in CHAIN] + [([(a, b)], cd, old_leaves) for a in base for b in base]
    sh += [([(a, b)], 3, new_leaves) for a in base for b in base]
    sh += [([(a, b)], 2) for a in CHAIN for b in CHAIN if a in extra or b in extra]
    sh += [([(a, b, c)], 3) for a in base for b in base for c in extra]
    explore.pmap(_chain_shard, sh, rep, seed)
    explore.pmap(_pair_shard, [(c, PROBES) for c in explore.chunks(EARLY + STRUCTS, 32)], rep, seed)
    depth = 2 if quick else 3
    menu = MENU
    explore.pmap(_bfs_shard, [(m, menu, depth) for m in menu], rep, seed)
    if not quick:
        # depth 4 over a 35-statement core (every second early-exit statement, three probes, three atoms): 35^4 = 1.5M histories
        # before dedup (the full 69-statement core took 100 minutes)
        core = EARLY[::2] + PROBES[:3] + ["2 ", "_", "3ɾ,", "λn;†"]
        explore.pmap(_bfs_shard, [(m, core, 4) for m in core], rep, seed)
    b = rep.sections.get("bfs", {})
    rep.extra.update({
        "states": int(b.get("states", 1)) or 1,
        "transitions": int(b.get("transitions", 1)) or 1,
        "traces_validated_against_impl": int(b.get("transitions", 0)),
        "menu_size": len(MENU), "chain_depth": cd, "bfs_depth": depth, "allow_skips": True,
        "explanation": "every statement of every history is transpiled and exec'd by the real implementation on one Context; the oracle "
                       "is the invariant (context_values == [0], one input scope, ctx.stacks == [main stack], empty function_stack) "
                       "at every statement boundary; there is no separate model to validate",
    })
    rep.rule = ("all nesting chains of depth <=%d over %d chain elements (if, if-else, for, bounded while, lambda call, forced map, forced "
                "filter, function def+call, list item) x %d leaves incl. X / x / 1X2 / :[X], each followed by n; every early-exit and "
                "structure statement x 3 initial stacks x %d probes; BFS over statement sequences (menu of %d statements) to depth %d with "
                "dedup on (top of stack, height, variables, register, cursor parity). Histories that raise or do not terminate are out of "
                "domain." % (cd, len(CHAIN), len(LEAVES), len(PROBES), len(MENU), depth))
    rep.sample({"program": chain_text((CHAIN[2], CHAIN[4], CHAIN[0]), "X") + " n"})
    rep.sample({"program": "3(nx) λn;† n"})
    rep.sample({"program": "3ɾ, 2ɾƛn;L n"})
    rep.assumptions = ["each top-level statement is exec'd separately (so the boundary between statements is observable)",
                       "terminating = returns within a 2 s backstop"]
    return rep


def replay(art):
    c = art["case"]
    hist = c.get("statements") or [c["program"]]
    st = build(hist)
    part = explore.Partial()
    judge(part, hist, st, "replay")
    return part.d["violations"] or None
