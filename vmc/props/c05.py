"""C05 - numeric literals denote exactly their decimal value.  Shape (E), exhaustive."""
from __future__ import annotations

import itertools
from fractions import Fraction

from vmc.core import explore, sandbox
from vmc.core.report import Report

PROP = "C05"


# ---------------------------------------------------------------- lexer model (DFA from Lexer.md / property)
def dfa_split(s: str):
    """Split a string over digits and '.' into number tokens:
    a leading 0 stands alone unless followed by '.', a second point starts a new number."""
    toks = []
    i = 0
    n = len(s)
    while i < n:
        c = s[i]
        if c == "0" and not (i + 1 < n and s[i + 1] == "."):
            toks.append("0")
            i += 1
            continue
        j = i + 1
        seen_point = c == "."
        while j < n:
            d = s[j]
            if d == ".":
                if seen_point:
                    break
                seen_point = True
            j += 1
        toks.append(s[i:j])
        i = j
    return toks


def value_of(tok: str) -> Fraction:
    if tok == ".":
        return Fraction(1, 2)  # documented special case
    return Fraction(tok)


def exact(v):
    """Fraction of a pushed value if it is an exact number of an allowed type, else None."""
    import sympy

    if isinstance(v, bool):
        return None
    if isinstance(v, int):
        return Fraction(v)
    if isinstance(v, sympy.Rational):  # Integer, Rational, Half, One, Zero ...
        return Fraction(int(v.p), int(v.q))
    return None


def run_literal(tok):
    r = sandbox.run_program(tok, timeout=20)
    if r.exc is not None:
        return None, "raises " + type(r.exc).__name__
    if len(r.stack) != 1:
        return None, "pushed %d values" % len(r.stack)
    f = exact(r.stack[0])
    if f is None:
        return None, "non-rational %s: %s" % (type(r.stack[0]).__name__, str(r.stack[0])[:40])
    return f, None


def classify(tok):
    if "." not in tok:
        return "integer"
    if tok == ".":
        return "bare point"
    if tok.endswith("."):
        return "trailing point"
    if tok.startswith("."):
        return "leading point"
    return "decimal"


def check_token(part, tok, section):
    part.count()
    part.nontriv()
    want = value_of(tok)
    got, err = run_literal(tok)
    part.outcome(classify(tok))
    if err is not None or got != want:
        what = "wrong type/raises" if err else "wrong value"
        tags = {"class": classify(tok), "what": what}
        tags.update(lowering_cause(tok))
        sig = "integer literal: does not push the integer it spells" if classify(tok) == "integer" else "%s literal: %s" % (classify(tok), what)
        part.violation("literal", {"literal": tok, "section": section}, sig, tags,
                       str(want), err or str(got), size=len(tok))


def lowering_cause(tok):
    """Pins the call site for known-finding attribution: is the generated code exactly the
    library call sympy.nsimplify("<digits>") and is the wrong value the library's own answer?"""
    import sympy

    try:
        code = sandbox.transpile(tok)
        r = sandbox.run_program(tok, timeout=20)
        if code.strip() == 'stack.append(sympy.nsimplify("%s"))' % tok and tok.isdigit():
            direct = sympy.nsimplify(tok)
            if r.exc is None and len(r.stack) == 1 and r.stack[0] == direct and type(r.stack[0]) is type(direct):
                return {"lowering": "sympy.nsimplify(<digit string>)", "value_is_librarys_own": True}
        return {"lowering": code.strip()[:60].replace(tok, "<lit>"), "value_is_librarys_own": False}
    except Exception as e:  # noqa
        return {"lowering": "raises " + type(e).__name__, "value_is_librarys_own": False}


def _tok_shard(args):
    toks, section = args
    part = explore.Partial()
    for t in toks:
        check_token(part, t, section)
    part.section(section, literals=len(toks))
    return part.data()


def _lex_shard(strings):
    from vyxal.lexer import TokenType, tokenise

    part = explore.Partial()
    for s in strings:
        part.count()
        want = dfa_split(s)
        try:
            toks = sandbox.tokenise(s)
        except sandbox.NonTermination:
            toks = []
        got = [t.value for t in toks]
        part.outcome(len(want))
        if got != want or any(t.name != TokenType.NUMBER for t in toks):
            part.violation("lex", {"text": s}, "digit string split differs from the documented DFA",
                           {"first_char": s[0]}, want, [[t.name.value, t.value] for t in toks], size=len(s))
    part.section("lexer_dfa", strings=len(strings))
    return part.data()


def _prog_shard(strings):
    part = explore.Partial()
    for s in strings:
        part.count()
        want = [value_of(t) for t in dfa_split(s)]
        r = sandbox.run_program(s, timeout=30)
        if r.exc is not None:
            got = "raises " + type(r.exc).__name__
        else:
            got = [exact(v) for v in r.stack]
        if got != want:
            # if every wrong position is an integer token whose own (single-literal) lowering is the known library-call
            # behaviour, this is that finding again, not a splitting problem: report it under the literal's signature
            toks = dfa_split(s)
            causes = []
            if isinstance(got, list) and len(got) == len(want):
                for t, g, w in zip(toks, got, want):
                    if g != w:
                        causes.append(lowering_cause(t) if classify(t) == "integer" else {"value_is_librarys_own": False})
            if causes and all(c.get("value_is_librarys_own") for c in causes):
                tags = {"class": "integer", "what": "wrong value"}
                tags.update(causes[0])
                part.violation("literal", {"literal": s, "section": "adjacent_programs"},
                               "integer literal: does not push the integer it spells", tags,
                               [str(x) for x in want], [str(x) for x in got], size=len(s) + 100)
            else:
                part.violation("program", {"text": s}, "adjacent literals: stack differs from the DFA split values",
                               {}, [str(x) for x in want], got if isinstance(got, str) else [str(x) for x in got],
                               size=len(s) + 100)
    part.section("adjacent_programs", strings=len(strings))
    return part.data()


ALGEBRAIC_LOOKING = [
    "1.4142135623730951", "1.414213562373095", "1.41421356237309", "1.7320508075688772", "2.23606797749979",
    "1.618033988749895", "0.618033988749895", "2.718281828459045", "3.141592653589793", "3.14159265358979",
    "0.333333333333333", "0.3333333333333333", "0.666666666666667", "0.142857142857143", "0.1428571428571428",
    "0.111111111111111", "0.7071067811865476", "0.5772156649015329", "1.0986122886681098", "0.6931471805599453",
    "2.302585092994046", "1.2599210498948732", "12.000000000000001", "11.999999999999999", "0.999999999999999",
    "1.000000000000001", "0.30000000000000004", "0.1000000000000001", "2.449489742783178", "2.6457513110645907",
    "6.283185307179586", "1.5707963267948966", "0.7853981633974483", "9.869604401089358", "7.38905609893065",
    "1.6487212707001282", "0.36787944117144233", "4.123105625617661", "3.3166247903554", "0.8660254037844386",
]


def structured_family():
    out = []
    for k in range(0, 26):
        out += ["1" + "0" * k, str(10 ** k + 1), str(10 ** k - 1) if k else "0"]
        for d in "1379":
            out.append(d * (k + 1))
    for k in (30, 40, 60):
        out += ["1" + "0" * k, "9" * k, "123456789" * (k // 9)]
    for d in "1379":
        for k in range(1, 19):
            out += ["0." + d * k, d + "." + "0" * (k - 1) + d, "0." + "0" * (k - 1) + d]
    for k in range(1, 19):
        out.append("1234567890123456789012345."[: 26 - k] if False else "3." + "141592653589793238"[:k])
    out += ["1234567890123456789012345.123456789012345678", "9999999999999999999999999.999999999999999999",
            "1000000000000000000000000.000000000000000001"]
    out += ALGEBRAIC_LOOKING
    seen = []
    for x in out:
        if x not in seen:
            seen.append(x)
    return seen


def run(tier, seed):
    rep = Report(PROP, tier, seed, "exploration")
    quick = tier == "quick"
    # 1. lexer DFA on all strings of length <= 8 over {0,1,9,.}
    strings = ["".join(p) for n in range(1, 9) for p in itertools.product("019.", repeat=n)]
    explore.pmap(_lex_shard, explore.chunks(strings, 32), rep, seed)
    # 2. every distinct token occurring in those strings, run alone
    toks = sorted({t for s in strings if len(s) <= (6 if quick else 8) for t in dfa_split(s)}, key=lambda t: (len(t), t))
    explore.pmap(_tok_shard, [(c, "tokens_of_dfa_strings") for c in explore.chunks(toks, 64)], rep, seed)
    # 3. adjacency: whole strings run as programs
    progs = [s for s in strings if len(s) <= (4 if quick else 5)]
    explore.pmap(_prog_shard, explore.chunks(progs, 32), rep, seed)
    # 4. integers
    hi = 20000 if quick else 1000000
    ints = [str(i) for i in range(hi + 1)]
    explore.pmap(_tok_shard, [(c, "integers_0_%d" % hi) for c in explore.chunks(ints, 128)], rep, seed)
    # 5. decimals a.b
    if quick:
        decs = ["%s.%s" % (a, "".join(b)) for a in ("0", "7") for n in (1, 2, 3) for b in itertools.product("0123456789", repeat=n)]
    else:
        decs = ["%d.%s" % (a, "".join(b)) for a in range(10) for n in (1, 2, 3, 4) for b in itertools.product("0123456789", repeat=n)]
    explore.pmap(_tok_shard, [(c, "decimals") for c in explore.chunks(decs, 128)], rep, seed)
    # 6. structured family for the large end
    fam = structured_family()
    explore.pmap(_tok_shard, [(c, "structured_family") for c in explore.chunks(fam, 16)], rep, seed)
    rep.rule = ("all strings <=8 over {0,1,9,.} vs a DFA (lexing); every distinct number token of those strings, all "
                "integers 0..%d, all decimals a.b (%d of them) and a structured family (10^k, 10^k+-1, repdigits, up to 25 "
                "integer / 18 fractional digits, 40 algebraic-looking decimals) run alone and compared with "
                "fractions.Fraction; whole strings <=%d run as programs. Non-trivial/distinct = distinct literal text."
                % (hi, len(decs), 4 if quick else 5))
    import random

    rnd = random.Random(seed)
    for pool in (toks, ints, decs, fam):
        rep.sample({"literal": rnd.choice(pool)})
    rep.sample({"text": "10.5.01", "dfa_split": dfa_split("10.5.01")})
    rep.assumptions = ["fractions.Fraction(literal) is the denotation; '.' alone is 1/2 (documented)",
                       "complex literals (the degree sign) are outside the property"]
    return rep


def replay(art):
    c = art["case"]
    if "literal" in c:
        want = value_of(c["literal"])
        got, err = run_literal(c["literal"])
        return None if (err is None and got == want) else (err or str(got))
    s = c["text"]
    from vyxal.lexer import tokenise

    if [t.value for t in tokenise(s)] != dfa_split(s):
        return "lex differs"
    r = sandbox.run_program(s)
    got = None if r.exc else [exact(v) for v in r.stack]
    return None if got == [value_of(t) for t in dfa_split(s)] else str(got)
