"""C17 - number-theory builtins agree with their definitions. (E), exhaustive."""
from __future__ import annotations

import math
from fractions import Fraction

from vmc.core import explore, sandbox
from vmc.core.report import Report

PROP = "C17"


# ------------------------------------------------------------ naive definitions
def is_prime(n):
    if n < 2:
        return False
    if n < 4:
        return True
    if n % 2 == 0:
        return False
    i = 3
    while i * i <= n:
        if n % i == 0:
            return False
        i += 2
    return True


def factor(n):
    out = []
    d = 2
    while d * d <= n:
        while n % d == 0:
            out.append(d)
            n //= d
        d += 1 if d == 2 else 2
    if n > 1:
        out.append(n)
    return out


def divisors(n):
    small = [d for d in range(1, math.isqrt(n) + 1) if n % d == 0]
    return sorted(set(small + [n // d for d in small]))


def totient(n):
    return sum(1 for k in range(1, n + 1) if math.gcd(k, n) == 1)


def totient_fast(n):
    r = n
    for p in set(factor(n)):
        r = r // p * (p - 1)
    return r


def next_prime(n):
    k = n + 1
    while not is_prime(k):
        k += 1
    return k


def prev_prime(n):
    k = n - 1
    while not is_prime(k):
        k -= 1
    return k


MONADS = [
    # (name, key, domain predicate, expected)
    ("primality", "æ", lambda n: True, lambda n: int(is_prime(n))),
    ("prime factors with multiplicity", "ǐ", lambda n: n >= 1, factor),
    ("distinct prime factors", "Ǐ", lambda n: n >= 1, lambda n: sorted(set(factor(n)))),
    ("divisors", "K", lambda n: n >= 1, divisors),
    ("sum of proper divisors", "∆K", lambda n: n >= 1, lambda n: sum(divisors(n)[:-1])),
    ("factorial", "¡", lambda n: n <= 400, math.factorial),
    ("totient", "∆ṫ", lambda n: n >= 1, totient_fast),
    ("next prime", "∆Ṗ", lambda n: True, next_prime),
    ("previous prime", "∆ṗ", lambda n: n >= 3, prev_prime),
    ("binary digits", "b", lambda n: True, lambda n: [int(c) for c in bin(n)[2:]]),
    ("hexadecimal", "H", lambda n: True, lambda n: hex(n)[2:]),
    ("range 1..n", "ɾ", lambda n: n <= 3000, lambda n: list(range(1, n + 1))),
    ("range 0..n", "ʀ", lambda n: n <= 3000, lambda n: list(range(0, n + 1))),
    ("range 1..n-1", "ɽ", lambda n: n <= 3000, lambda n: list(range(1, n))),
    ("range 0..n-1", "ʁ", lambda n: n <= 3000, lambda n: list(range(0, n))),
    ("digits", "f", lambda n: True, lambda n: [int(c) for c in str(n)]),
    ("digit sum", "∑", lambda n: True, lambda n: sum(int(c) for c in str(n))),
    ("number of digits", "L", lambda n: True, lambda n: len(str(n))),
    ("reverse digits", "Ṙ", lambda n: True, lambda n: int(str(n)[::-1])),
    ("is square", "∆²", lambda n: True, lambda n: int(math.isqrt(n) ** 2 == n)),
    ("is even", "₂", lambda n: True, lambda n: int(n % 2 == 0)),
    ("divisible by 3", "₃", lambda n: True, lambda n: int(n % 3 == 0)),
    ("parity", "∷", lambda n: True, lambda n: n % 2),
    ("double", "d", lambda n: True, lambda n: 2 * n),
    ("halve", "½", lambda n: True, lambda n: Fraction(n, 2) if n % 2 else n // 2),
    ("square", "²", lambda n: True, lambda n: n * n),
    ("increment", "›", lambda n: True, lambda n: n + 1),
    ("decrement", "‹", lambda n: True, lambda n: n - 1),
]

PROGRAMS = [  # inverse pairs, run as programs on [n]
    ("from-binary inverts to-binary", "bB", lambda n: n),
    ("from-hex inverts to-hex", "HH", lambda n: n),
    ("root inverts square", "²√", lambda n: n),
    ("halve inverts double", "d½", lambda n: n),
    ("double inverts halve", "½d", lambda n: n),
]

DYADS = [
    ("gcd", "ġ", lambda a, b: math.gcd(a, b)),
    ("lcm", "∆Ŀ", lambda a, b: (a * b // math.gcd(a, b)) if a and b else 0),
    ("binomial", "ƈ", lambda a, b: math.comb(a, b)),
    ("divisibility", "Ḋ", lambda a, b: int(a % b == 0) if b else None),
    ("modulo", "%", lambda a, b: a % b if b else None),
]


def judge(part, name, key_or_prog, args, want, is_prog=False, as_sympy=False):
    if want is None:
        part.skip("outside the definition's domain")
        return
    part.count()
    shown = list(args)
    if as_sympy:   # the same integers as the program's own literals put them on the stack (sympy.Integer instead of int)
        import sympy

        args = [sympy.Integer(a) for a in args]
    if is_prog:
        r = sandbox.run_program(key_or_prog, stack=list(args), timeout=30)
        stack, exc = r.stack, r.exc
    else:
        stack, exc, _ = sandbox.apply_element(key_or_prog, args, timeout=30)
    if isinstance(exc, sandbox.CaseTimeout):
        part.cap("backstop hit (slow is not wrong): %s" % key_or_prog)
        return
    if exc is not None:
        ok, obs = False, "raises %s: %s" % (type(exc).__name__, str(exc)[:60])
    elif not stack:
        ok, obs = False, "empty stack"
    else:
        try:
            obs = sandbox.pyval(stack[-1])
        except Exception as e:  # noqa
            obs = "forcing raises " + type(e).__name__
        ok = obs == want and type(obs) is type(want)
        if obs == want and not ok and isinstance(obs, (int, Fraction)) and isinstance(want, (int, Fraction)):
            ok = True
    part.outcome((key_or_prog, str(want)[:12]))
    if not ok:
        n = shown[0]
        cls = ("0" if n == 0 else "1" if n == 1 else "prime" if n < 10 ** 7 and is_prime(n) else
               "prime-square" if n < 10 ** 14 and math.isqrt(n) ** 2 == n and is_prime(math.isqrt(n)) else
               "power-of-two" if n & (n - 1) == 0 else "other")
        part.violation("definition", {"law": name, "element": key_or_prog, "args": shown, "given_as": "sympy.Integer" if as_sympy else "int"},
                       "%s [%s]: differs from the definition" % (name, key_or_prog),
                       {"element": key_or_prog, "n_class": cls, "given_as": "sympy" if as_sympy else "int", "what": obs if isinstance(obs, str) and obs.startswith(("raises", "forcing", "empty")) else "wrong value"},
                       str(want)[:200], str(obs)[:200], size=len(str(args)))


def _monad_shard(ns):
    part = explore.Partial()
    for n in ns:
        for name, key, dom, f in MONADS:
            judge(part, name, key, [n], f(n) if dom(n) else None)
        for name, prog, f in PROGRAMS:
            judge(part, name, prog, [n], f(n), is_prog=True)
        part.nontriv()
    return part.data()


def _dyad_shard(pairs):
    part = explore.Partial()
    for a, b in pairs:
        for name, key, f in DYADS:
            judge(part, name, key, [a, b], f(a, b))
        part.nontriv()
    return part.data()


def _sympy_shard(ns):
    """the same definitions with the arguments given the way a program's literals give them: as sympy Integers"""
    part = explore.Partial()
    for n in ns:
        for name, key, dom, f in MONADS:
            judge(part, name, key, [n], f(n) if dom(n) else None, as_sympy=True)
        for name, prog, f in PROGRAMS:
            judge(part, name, prog, [n], f(n), is_prog=True, as_sympy=True)
        if n <= 40:
            for m in range(0, 41):
                for name, key, f in DYADS:
                    judge(part, name, key, [n, m], f(n, m), as_sympy=True)
        part.nontriv()
    return part.data()


# composites that fool Miller-Rabin with few fixed bases (psi_k = least strong pseudoprime to the first k primes, and friends), each
# with a factor that proves it composite; and Mersenne primes (known primes far beyond trial division)
PSEUDOPRIMES = [(2047, 23), (1373653, 829), (25326001, 2251), (3215031751, 151), (2152302898747, 6763), (3474749660383, 1303),
                (341550071728321, 10670053), (3825123056546413051, 149491), (118670087467, 172243), (4759123141, 48781),
                (1122004669633, 611557), (318665857834031151167461, 399165290221), (3317044064679887385961981, 1287836182261),
                (9080191, 2131), (4681, 31), (15841, 7), (52633, 7), (3215031751 * 3, 3)]
MERSENNE_PRIMES = [2 ** 31 - 1, 2 ** 61 - 1, 2 ** 89 - 1, 2 ** 107 - 1, 2 ** 127 - 1]


def _pseudo_shard(_):
    part = explore.Partial()
    for n, f in PSEUDOPRIMES:
        assert 1 < f < n and n % f == 0, (n, f)
        for sy in (False, True):
            judge(part, "primality", "æ", [n], 0, as_sympy=sy)
        part.nontriv()
    for n in MERSENNE_PRIMES:
        for sy in (False, True):
            judge(part, "primality", "æ", [n], 1, as_sympy=sy)
        part.nontriv()
    part.section("pseudoprime_family", composites=len(PSEUDOPRIMES), mersenne_primes=len(MERSENNE_PRIMES))
    return part.data()


CARMICHAEL = [561, 1105, 1729, 2465, 2821, 6601, 8911, 10585, 15841, 29341, 41041, 46657, 52633, 62745, 63973, 75361,
              101101, 115921, 126217, 162401, 172081, 188461, 252601, 278545, 294409, 314821, 334153, 340561, 399001,
              410041, 449065, 488881, 512461]

BIG_MONADS = [m for m in MONADS if m[1] in ("æ", "ǐ", "Ǐ", "∆ṫ", "∆Ṗ", "b", "H", "f", "∑", "L", "Ṙ", "∆²", "d", "½", "²", "₂", "₃")]


def _big_shard(ns):
    part = explore.Partial()
    for n in ns:
        for name, key, dom, f in BIG_MONADS:
            judge(part, name, key, [n], f(n) if dom(n) else None)
        for name, prog, f in PROGRAMS:
            judge(part, name, prog, [n], f(n), is_prog=True)
        part.nontriv()
    return part.data()


def run(tier, seed):
    rep = Report(PROP, tier, seed, "exploration")
    quick = tier == "quick"
    N = 20000 if quick else 200000
    explore.pmap(_monad_shard, explore.chunks(list(range(0, N + 1)), 128), rep, seed)
    P = 150 if quick else 500
    pairs = [(a, b) for a in range(0, P + 1) for b in range(0, P + 1)]
    explore.pmap(_dyad_shard, explore.chunks(pairs, 128), rep, seed)
    fam = set(CARMICHAEL)
    primes = [p for p in range(2, 1000 if not quick else 200) if is_prime(p)]
    fam |= {p * p for p in primes} | {p * q for p, q in zip(primes, primes[1:])}
    for k in range(1, 41):
        fam |= {2 ** k - 1, 2 ** k, 2 ** k + 1}
    # semiprimes / products of three primes whose factors all exceed 2^15 (beyond trial division: found by rho / p-1 in any order)
    big = [p for p in range(32771, 33200) if is_prime(p)][:8] + [65537, 65539, 100003, 100019, 282827, 634441, 999983, 1000003]
    fam |= {a * b for i, a in enumerate(big) for b in big[i:]} | {2 * 20370319 * 23819, 32771 * 65537 * 100003, 3 * 32779 * 1000003}
    if not quick:
        base = 10 ** 12
        fam |= set(range(base - 30, base + 70))
        fam |= {10 ** k + d for k in range(6, 12) for d in (-1, 0, 1, 3, 7, 9)}
    else:
        fam |= {10 ** 9 + d for d in range(0, 12)}
    explore.pmap(_big_shard, explore.chunks(sorted(fam), 64), rep, seed)
    explore.pmap(_sympy_shard, explore.chunks(list(range(0, 2001 if quick else 20001)), 64), rep, seed)
    explore.pmap(_pseudo_shard, [0], rep, seed)
    rep.rule = ("all n in 0..%d against %d monadic definitions and %d inverse-pair programs; all pairs (a,b) <= %d for gcd, lcm, "
                "binomial, divisibility, modulo; a structured large family (%d numbers: Carmichael numbers < 10^6, p^2, p*q, 2^k, "
                "2^k+-1, numbers around 10^9/10^12); the same definitions with the arguments given as sympy Integers (as program literals are) for n <= 2000 [20000] and pairs <= 40; 18 strong pseudoprimes / psi_k values (each with a factor proving it composite) and 5 Mersenne primes for primality. Naive trial-division definitions. distinct_nontrivial = distinct n + pairs."
                % (N, len(MONADS), len(PROGRAMS), P, len(fam)))
    rep.extra["allow_skips"] = True
    rep.extra["elements"] = [m[1] for m in MONADS] + [d[1] for d in DYADS] + [p[1] for p in PROGRAMS]
    rep.sample({"n": 561, "element": "æ", "expected": 0})
    rep.sample({"n": 1024, "program": "bB", "expected": 1024})
    rep.sample({"pair": [12, 18], "element": "∆Ŀ", "expected": 36})
    rep.assumptions = ["naive trial-division reference definitions", "math.comb / math.factorial / bin / hex"]
    return rep


def replay(art):
    c = art["case"]
    part = explore.Partial()
    args = c["args"]
    if len(args) == 1:
        d = _monad_shard([args[0]])
    else:
        d = _dyad_shard([tuple(args)])
    hits = [v for v in d["violations"] if v["signature"] == art["signature"]]
    return hits or None
