#!/usr/bin/env python3
"""Regenerates the `fixed` list of known_findings.json: 'fixed: property=<id> <commit> <what failed>'.
The commit hash is looked up in /repo by the subject of the fix: commit, so a history rewrite of
/repo (autosquash of a fix) cannot leave stale hashes behind."""
import json
import os
import subprocess

VERIF = os.path.dirname(os.path.dirname(os.path.abspath(__file__)))
FIXES = [
    ("C13", "fix: LazyList negative index no longer duplicates", "L[-1] (negative index) appended list(self) to the cache, duplicating every item: source [0], history [idx-1] left generated == [0, 0]"),
    ("C13", "fix: a LazyList whose items are already cached is truthy", "bool(L) pulled a new item instead of looking at the cache: source [0], history [bool, bool] gave False"),
    ("C13", "fix: LazyList slices stop at the end", "L[a:b] wrapped around: source [0], history [s[0:5]] gave [0,0,0,0,0]; source [] gave zeros"),
    ("C13", "fix: LazyList slices with a negative step", "L[::-1] returned one item / raised ValueError in islice: source [0,0], history [s[::-1]] gave [0]"),
    ("C13", "fix: reversing a copied lazy list", "reversed() on a deep_copy (tee-backed) left the cursor behind: source [1], a copy, history [reversed, count1] counted the item twice; len() was 2n"),
    ("C20", "fix: drop the unreachable element-table entry for x", "element-table key x was shadowed by the recurse statement (parse(tokenise('x')) is a RecurseStatement): unreachable entry removed"),
    ("C20", "fix: documented arity of İ", "documented arity of İ (1) and Ṡ (0) differed from the table arity (2 and 1)"),
    ("C05", "fix: decimal literals push exactly", "decimal literals went through sympy.nsimplify(str): 0.333333333333333 -> 1/3, 1.4142135623730951 -> sqrt(2), 0.051 -> product of fractional prime powers, 0.11111111 -> 1/9"),
    ("C07", "fix: division of integers is exact", "divide on Python ints went through float + nsimplify: 3 / 123456 gave 243001555209953/10^19 (75 pairs of the large family)"),
    ("C07", "fix: floor division of rationals", "floor division of sympy rationals used sympy's //: -1 ḭ 1/2 gave -3, -1/2 ḭ 1 gave 0 (560 of the small pairs)"),
    ("C03", "fix: the parser checks a token's kind", "parser read literal payloads as syntax: »X» parsed as a BreakStatement, »v»+ as a modifier, [`|`|1] (a string holding |) split the if into three branches (2237 of 335967 cases)"),
    ("C15", "fix: to_base works for 0", "to_base(0, b) raised 'math domain error' (digit count from math.log): 0 2 τ failed for every base 2..300; compressed numbers 13/37/87/117/119 failed through the C03 parser defect"),
    ("C16", "fix: cumulative reduction of an empty list", "cumulative sums of [] raised TypeError when forced (scanl yielded None)"),
    ("C16", "fix: the only permutation of the empty list", "permutations of [] were [''] instead of [[]]"),
    ("C17", "fix: prime factors are listed in ascending order", "prime factors (ǐ) came back unsorted for some n: 17179869183 gave [3, 131071, 43691]"),
    ("C10", "fix: Ȧ assigns into a copy", "Ȧ stored into its argument in place; every lazy duplicate changed too: ⟨1|2|3⟩ : 0 9 Ȧ left ⟨9|2|3⟩ twice (also via →x←x and £¥)"),
    ("C10", "fix: Ḟ (generator from function) no longer appends", "Ḟ appended each generated term to the caller's initial list: ⟨1|2|3⟩ : λ+; Ḟ 4Ẏ grew the untouched duplicate"),
    ("C08", "fix: powers with a negative exponent", "3 -1 e pushed the float 0.3333333333333333 while ⟨3⟩ -1 e gave ⟨1/3⟩ (scalar and element-wise results differ); 1N E pushed the float 0.5"),
    ("C08", "fix: øṘ (roman numeral) vectorises over lazy lists", "øṘ on a LazyList returned None (branch tested vy_type(lhs) is list)"),
    ("C08", "fix: ∆± (copy sign) vectorises over its second argument", "∆± with a list as sign argument used the truthiness of the whole comparison: 0 ⟨⟩ ∆± gave 0 instead of ⟨⟩"),
    ("C08", "fix: ∆f (nth Fibonacci number) vectorises", "∆f on a list raised (template sympy.fibonacci(lhs + 1)) although documented vectorise: true"),
    ("C02", "fix: break/continue in a while condition", "{X|+} / {x|+}: break/continue emitted in front of the while loop -> 'break' outside loop (410 programs of the context sweep)"),
    ("C02", "fix: break/continue inside a list item", "(⟨X⟩) / (⟨x⟩): break/continue emitted inside def list_item nested in a for loop -> SyntaxError (132 programs)"),
    ("C18", "fix: parameter names keep only ASCII letters", "[^A-z_] lets [ \\ ] ^ ` through: @f:a\\[b\\]|1; emitted VAR_a[b] = pop(...), @f:^|1; emitted unparsable code (1800 payload cases)"),
    ("C19", "fix: errors during the implicit output are reported", "online mode: an error in the implicit-output phase escaped execute_vyxal (λ`x`; with flag j -> TypeError propagated, error record empty; 1228 of 34944 cases)"),
    ("C12", "fix: break and continue pop the loop's context value", "3(X)n / 3(nx)n: break/continue skipped ctx.context_values.pop(); n afterwards read the stale loop value"),
    ("C12", "fix: an early return (X) from a lambda or function", "λX;† left entries on ctx.stacks and ctx.function_stack; @f|1X2;@f; left ctx.stacks entry"),
    ("C12", "fix: printing a lazy list unregisters", "3ɾ, : LazyList.output appended to ctx.stacks and never popped (every printed lazy list leaked one entry)"),
    ("C01", "fix: continue (x) in a while loop re-evaluates", "x in a while loop jumped back to the test of the stale condition value: the condition code never ran again (2→c{←c|←c‹→c x} did not terminate)"),
    ("C01", "fix: & (apply to register) passes the operand", "& with a dyad handed both arguments to the operand as one list: 3£ 4&+ ¥ gave [6, 8] instead of 7; &! received a spurious empty list"),
    ("C01", "fix: break and recurse inside map/filter/sort lambdas", "X inside ƛ ' µ was a no-op (2ƛX!; gave [1, 1] instead of [1, 2]) and x printed the stack, because their bodies were parsed with LambdaMap/Filter/Sort as parent"),
    ("C08", "fix: Þ∴ and Þ∵ pair their lists", "Þ∴ / Þ∵ on lists of unequal length: ⟨0⟩ ⟨⟩ Þ∴ raised IndexError, ⟨⟩ ⟨0⟩ Þ∴ gave ⟨⟩, lazy ⟨-1|0⟩ ⟨2⟩ Þ∴ wrapped to ⟨2|2⟩"),
    ("C01", "fix: break and recurse inside a named function body", "X inside @f|...; was a silent no-op (@f|1X2;@f; left 1 2 instead of returning with 1) and x printed the stack: the body was parsed with FunctionCall as parent while the lowering tests FunctionDef"),
    ("C02", "fix: a string literal that ends in a lone backslash", "‛a\\ with dictionary compression off emitted stack.append(\"a\\\") (unterminated string literal); with compression on the backslash was silently dropped"),
    ("C02", "fix: the template of ¨…", "the template of ¨… had a positional argument after a keyword argument: every program containing ¨… failed to compile"),
    ("C02", "fix: incomplete \\x \\u \\U \\N escapes in string literals", "a back-quoted / two-character string containing a backslash followed by x, u, U or N without the digits / name Python requires (`\\x`, ‛\\u, `\\N{`) was lowered to a Python literal that does not compile (SyntaxError: truncated \\xXX escape); found by a sub-agent's differential corpus, reproduced by C02 after adding escape-sequence payloads"),
    ("C13", "fix: LazyList slices with a negative start", "L[-2:] / L[-5:2] treated a negative START as an ordinary index: a one-item lazy list gave [] for [-2:] (a list gives the item), longer ones wrapped around; found when the seventh seed wave made me add slices with negative bounds to the observations"),
]


def main():
    log = subprocess.run(["git", "-C", "/repo", "log", "--format=%h %s"], capture_output=True, text=True).stdout.splitlines()
    out = []
    for prop, subj, what in FIXES:
        hits = [l.split()[0] for l in log if l.split(" ", 1)[1].startswith(subj)]
        if len(hits) != 1:
            raise SystemExit("no unique commit for %r: %s" % (subj, hits))
        out.append("fixed: property=%s %s %s" % (prop, hits[0], what))
    p = os.path.join(VERIF, "known_findings.json")
    d = json.load(open(p, encoding="utf-8"))
    d["fixed"] = out
    json.dump(d, open(p, "w", encoding="utf-8"), ensure_ascii=False, indent=1)
    print("%d fixed entries" % len(out))


if __name__ == "__main__":
    main()
