#!/bin/bash
# seedcheck.sh <seed-dir containing patch.diff + demo.py> <PROP> [more PROPs...]
# Confirms a seeded change on a scratch worktree of /repo's current HEAD (never touches /repo's working tree):
#   demo passes before; patch applies; the 392 tests pass; demo fails after; then runs the named checks against the scratch copy.
SD=$(realpath "$1"); shift
W=/var/tmp/vmc-seed-$$
git -C /repo worktree add -q --detach $W ${SEED_BASE:-HEAD} || exit 9
cleanup() { git -C /repo worktree remove --force $W 2>/dev/null; rm -rf /var/tmp/vmc-ev-$$; }
trap cleanup EXIT
cd $W
mkdir -p SEEDED/X; cp $SD/demo.py SEEDED/X/demo.py
timeout 180 /venv/bin/python SEEDED/X/demo.py </dev/null >/dev/null 2>&1; echo "demo_before=$?"
if ! git apply --whitespace=nowarn $SD/patch.diff; then echo "patch_applies=no"; exit 8; fi
echo "patch_applies=yes"
echo "tests: $(timeout 900 /venv/bin/python -m pytest -q -p no:cacheprovider --timeout=900 </dev/null 2>&1 | tail -1)"
timeout 180 /venv/bin/python SEEDED/X/demo.py </dev/null >/dev/null 2>&1; echo "demo_after=$?"
mkdir -p /var/tmp/vmc-ev-$$
for P in "$@"; do
  out=$(cd /verif && VERIF_REPO=$W VERIF_EVIDENCE_DIR=/var/tmp/vmc-ev-$$ VERIF_REPLAY_DIR=/var/tmp/vmc-ev-$$/replays /venv/bin/python -m vmc.run $P --tier ${TIER:-quick} 2>&1)
  rc=$?
  echo "check $P rc=$rc violations=$(echo "$out" | grep -c '^VIOLATION')"
  echo "$out" | grep -A1 '^VIOLATION' | head -6 | cut -c1-300
done
