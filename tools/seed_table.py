#!/usr/bin/env python3
"""Rewrites section 8 of DESIGN.md from seeded/*/meta.json (+ the notes below on what had to be strengthened)."""
import glob
import json
import os
import re

VERIF = os.path.dirname(os.path.dirname(os.path.abspath(__file__)))

# seeds that the checks missed when they first arrived, and what was strengthened to catch them
STRENGTHENED = {
    "C02-A": "missed: no position *after* a modified element in the same scope -> added the after-modifier contexts (a modifier parses the whole rest of its scope)",
    "C04-A": "missed: every chain had a token after the innermost opener -> added the empty tail",
    "C04-B": "missed: no string tail ending in an escape -> added tails ending in \\\\n, \\\\`, \\\\\\\\",
    "C06-A": "missed: each literal was evaluated once per process setting -> added two-step histories (other compression setting first)",
    "C13-B": "missed: copies/iterators were observed only immediately; dedup canon cannot see a suspended iterator's resume point -> persistent copy/iterator observations + a deep focused pass without dedup",
    "C01-A": "missed by C01 (caught by C12): nothing read the context after an inner construct had finished -> probed chains (every level prints n after the inner construct)",
    "C01-B": "missed: flag programs had no range-consuming constructs -> for/map/filter/vectorise/~ on numbers under all nine flag sets",
    "C09-A": "missed: modifier programs always had spare arguments above the prefix -> runs with exactly the entitled number of arguments",
    "C09-B": "missed by C09 (caught by C10): fresh un-aliased arguments only -> a second reference to every list argument sits below the arguments",
    "C10-A": "missed: no transition touched the global array while a snapshot was held -> global-array snapshot histories",
    "C10-B": "missed: no infinite (flagged) list among the values -> Þp with the elements that are meant to work lazily",
    "C12-A": "missed: X/x never sat in a while condition -> while-condition chain element",
    "C12-B": "missed: lambdas were only called with one argument -> arity-0 / arity-2 lambdas and functions with arguments in the chains",
    "C16-B": "missed in the quick tier (thorough caught it): pair lists were <=2 long -> pairs up to length 3 in quick",
    "C19-A": "missed: every tainted text started with a letter, bracket or underscore -> taint strings / inputs that start like a number",
    "C19-B": "missed: no element that calls a user function -> every function-taking element with a printing / evaluating lambda",
    # second wave (seeds C/D)
    "C01-C": "missed: parallel-apply operands always had equal arity -> ₌/₍ with operands of different arity in the statement menu",
    "C02-C": "missed: names were ASCII only -> every code-page word character (\\w) at every name position",
    "C08-D": "missed in the quick tier: the list-list pool had no falsy items -> \"\" and [] added to the quick pool",
    "C09-C": "missed: no function values among the arguments -> a lambda and a list holding a lambda in the value domain",
    "C11-D": "missed: read histories had no early return -> X inside functions / lambdas / loops / list items in the menus and the model",
    "C15-D": "missed: each codec was exercised on its own -> two-step histories: literals of different kinds with the same text in one process",
    "C18-C": "missed: payload alphabet had no dictionary codes -> every 1- and 2-character dictionary code inside a string",
    "C18-D": "missed: no character that str.isnumeric()/\\w accept but Python does not -> ² and ₁ added to the adversarial alphabet",
    "C19-C": "missed: no taint text with a backslash before a double quote -> quote-breakout taint literal and input",
    "C19-D": "missed: inputs were numbers, lists or expressions -> valid Python literals without a Vyxal value (None, ..., 1e999, sets, bytes)",
    "C03-C": "missed: no context had a later comment after closers that a payload could pair with -> contexts with a structure and a second comment after the literal",
    "C16-C": "missed: the grading law accepted any order among equal items -> grades are compared with the stable grade (ties keep their original order, as in APL)",
    # third wave (seeds E/F)
    "C09-F": "missed by C09 (C10 caught it): the entries below the arguments were plain sentinels -> entries that are earlier RESULTS (a ¾ snapshot, the register's / a variable's value, a lazy duplicate)",
    "C08-E": "missed by C08 (C13 caught it): the two arguments were independent lists -> arguments sharing one lazy source (a list and its duplicate, read at different paces)",
    "C08-F": "missed by C08 (C13 caught it): as C08-E -> plus the duplicate paired with the reversal of the original object",
    "C14-E": "missed: the infinite list was always the first operand -> exclusion filter / membership probes with the infinite list as second operand",
    "C01-E": "strengthened from the seed's notes before its first run: list items that consume / leave values, in the statement menu",
    "C01-F": "strengthened from the seed's notes before its first run: reference semantics for printing a function value (R12) + such programs under all flags",
    "C09-E": "strengthened from the seed's notes before its first run: nested modifiers with exactly the entitled arguments",
    "C12-E": "strengthened from the seed's notes before its first run: conditionless loops with x then X (statements and a chain element)",
    # fourth wave (file-focused: each agent owned one source file and chose the property)
    "F_main-C": "missed: C11 drove transpile+exec on a prepared Context, never the entry point that parses the inputs -> end-to-end section: main.execute_vyxal (offline and online) x every list of <=3 input texts incl. ones evaluating to 0 / [] / \"\" x every sequence of reading operations",
    "F_LazyList-C": "missed: every printed lazy list was either fresh or fully produced -> programs that look at a lazy value through a second reference (duplicate, register, variable, if) and then print it, under all flag sets",
    # fifth wave (area-focused: context, codecs, modifiers, numeric, list operations, strings, lazy operations, element table)
    "G_codec-A": "missed: every codec was exercised in its own worker, and the cross-kind oracle used the library's own base helpers (wrong on both sides) -> expected values computed independently + mixed-codec histories (all orders of numbers / strings / dictionary strings, interleaved) each in a freshly forked process",
    "G_codec-C": "missed by C06: no history evaluated a compressed literal with the same body before the back-quoted one -> every string also after «body« and »body» in the same process",
    "G_strings-B": "C06 did not return on this change (the mis-quoted text is a loop): evaluating a literal now runs under a watchdog and non-termination is a violation; the change is then caught by the plain round trip",
    "G_strings-C": "missed: the audit looked for taint NAMES in executed code; an expression parser (sympy) turns unknown names into Symbol('name') -> the bare identifier as a string constant of executed code counts as parsed user text",
    "G_listops-B": "missed: sort bodies were pure and lists had no repeated items -> eager higher-order elements (sort, reduce) with printing / register-touching bodies over lists and inputs with repeats",
    "G_modifiers-A": "missed: modifier operands were single elements -> every modifier around explicit lambdas of arity 1-3 whose bodies have several consuming elements",
    "G_modifiers-C": "missed: lambdas were only called through the call element -> lambdas declaring 1-3 parameters called with one argument by map / filter (the library's apply protocol), forced in order",
    # sixth wave (agents were given the list of ideas already used and asked for longer histories, deeper nesting, boundary data, interactions)
    "H_gen-A": "missed: the code page was only decoded from lists of ints -> every byte and byte pair also as bytes / bytearray (what the v flag passes)",
    "H_lex-A": "missed: no context put a later X / x after a modifier whose operand is the literal -> 12 such contexts (the parent that X / x refers to is part of the compared shape)",
    "H_gen-C": "missed: every payload position stood alone -> a literal followed (directly or after elements) by a bare arrow / loop without a name: no text may carry over between tokens",
    "H_gen-B": "missed: numeric parameters were 0 1 2 -> every digit string <=3 over 0 1 7 (leading zeros) as parameter count and lambda arity",
    "H_num-A": "missed: primality was compared up to 2*10^4 plus Carmichael numbers -> 18 strong pseudoprimes (psi_k values and friends, each with a factor proving it composite) + 5 Mersenne primes; also fixed: my own classification of a violating n used trial division and did not return for these",
    "H_num-C": "missed: arguments were Python ints only -> the same definitions with sympy Integers (what a program's own literals push) for n <= 2000 and pairs <= 40",
    "H_num-B": "missed: expression trees had small leaves -> all left-deep operator chains of 2-3 operators (4 over / *) whose leaves are 10^6, 999983, 2^31 (delivered as inputs)",
    "H_struct-A": "missed: lambdas reading n were only called with as many arguments as they declare -> n-reading lambdas of declared arity none/1/2/3 under reduce / map / filter / call",
    "H_vec-B": "missed: the string scalars were '' and 'ab' (even length) -> '7' (odd length, also a number)",
    "H_codec-A": "missed: dictionary words were the first 60 [150] + boundary ones -> every one of the 23 113 dictionary words on its own (and after 'a ' / before ' a')",
    "H_codec-C": "missed: the quoted text was only run as a program -> also q then the exec element inside a program, under both compression settings",
    "H_lazy-C": "missed by C14 (C16 caught it): the source 2,4,8,... never yields a constant stream, and the finite twin (same library code) was consulted for every over-budget pipeline -> second source 1,2,3,... for pipelines without a value-dependent stage; the twin decides existence only when a value-dependent stage is present",
    "H_stack-A": "missed by C10 (C13 caught it): every lazy value was fresh when copied -> lazy values that were already looked at through the register (one item memoised) before the copy is made",
    "H_stack-B": "missed: the number of results was never judged -> documented result counts of the four data-dependent elements (÷ y ₅ Ḋ) over 10 values",
    "H_io-B": "missed: function bodies popped at most as many values as parameters -> bodies that pop more (the arguments are then read cyclically, in a defined order), arities up to 3",
    "H_io-C": "missed: no modifier around the input element -> `c ß?` (conditional execute) as an operation of the read histories",
    # seventh wave (again with the list of used ideas; asked for code paths the earlier ideas had not touched)
    "I_gen-A": "missed: every key was an element -> the no-op tokens (line break, space, a lone digraph prefix) as the only content of a branch, in every non-operand position",
    "I_gen-B": "missed: the adversarial alphabet was inside the code page -> é (no digit value in any compression alphabet); and corrected: a negative number constant (`»é»` lowers to -1) is a constant, not a structural difference",
    "I_lazy-A": "missed: slices had non-negative starts and stop -1 only -> s[0:-3], s[:-4], s[-2:], s[-5:2]; the new observations exposed a genuine defect (negative slice start), repaired in 536132a",
    "I_num-A": "missed: every divisor was a leaf or a two-leaf result -> all five tree shapes with three operators over 1, 10^6, 999983 (computed divisors down to 10^-12)",
    "I_online-A": "missed: no program failed while or after printing -> 43 programs that print and then fail in seven different ways; the error record must hold the traceback",
    "I_online-B": "missed: as I_online-A -> the text printed before the failure must be complete in the output record",
    "I_stack-A": "missed because my own entitlement for `&` was one too high (the register is one of the element's arguments), so the extra pop hit a spare argument -> corrected to arity-1",
    "I_struct1-A": "missed: if statements had one or two branches -> else-if chains with 3, 4 and 5 branches under every combination of conditions",
    "I_struct1-B": "missed by C01 (C11 now catches it too): function bodies never popped more than their parameters -> counted / named / mixed parameter lists with bodies that pop more",
    "I_struct2-C": "missed: for loops in chains and statements were unnamed -> a named for loop as chain element and eight statements with X / x / n inside named loops",
    "C14-C": "missed: the item at index n was read from the cache after has_ind -> a third way of taking the prefix: real indexing result[n]",
}


def main():
    rows = []
    for f in sorted(glob.glob(os.path.join(VERIF, "seeded", "*", "meta.json"))):
        m = json.load(open(f, encoding="utf-8"))
        name = m["seed"]
        need = " ".join(m.get("needs_to_manifest", [])[:6])
        need = re.sub(r"\s+", " ", need).replace("|", "\\|")[:230]
        det = ", ".join(m.get("detected_by", [])) or "**none**"
        first = (m.get("first_violations") or [""])[0].split(" | ")[0][:80].replace("|", "\\|")
        note = STRENGTHENED.get(name, "").replace("|", "\\|")
        conf = "yes" if m.get("confirmed") else "NO"
        rows.append("| %s | %s | %s | %s | %s | %s |" % (name, conf, det, first, need, note))
    table = ["| seed | confirmed (tests pass, demo fails only with it) | detected by | first violation signature | what it changes / needs | strengthening |",
             "|---|---|---|---|---|---|"] + rows
    text = open(os.path.join(VERIF, "DESIGN.md"), encoding="utf-8").read()
    head = text[: text.index("## 8. Seeded changes")]
    tail = text[text.index("## 9. "):] if "## 9. " in text else ""
    body = ("## 8. Seeded changes and which check catches them\n\n"
            "Each seed was written by an independent sub-agent that saw only the property text and a scratch worktree; it is kept only after\n"
            "`tools/seedcheck.sh` confirmed on a scratch worktree of the current HEAD that the patch applies, the 392 tests still pass, and the\n"
            "demonstration fails with the change and passes without it. `detected by` = registered quick checks that exit 1 on that copy.\n"
            "Seeds whose first run was missed are marked with what was strengthened (the check now catches them; nothing was loosened).\n\n"
            + "\n".join(table) + "\n")
    open(os.path.join(VERIF, "DESIGN.md"), "w", encoding="utf-8").write(head + body + ("\n" + tail if tail else ""))
    n = len(rows)
    det = sum(1 for r in rows if "**none**" not in r)
    print("%d seeds, %d detected" % (n, det))


if __name__ == "__main__":
    main()
