#!/bin/bash
# Runs every registered check (tier $1, default quick) and prints one line per check.
TIER=${1:-quick}
cd /verif
for p in $(python3 -c "import json;print(' '.join(c['property_id'] for c in json.load(open('MANIFEST.json'))['checks']))"); do
  s=$(date +%s)
  out=$(/venv/bin/python -m vmc.run $p --tier $TIER 2>&1)
  rc=$?
  e=$(date +%s)
  echo "$p rc=$rc $((e-s))s $(echo "$out" | grep -c '^VIOLATION') violations $(echo "$out" | grep -c '^KNOWN-FINDING') known | $(echo "$out" | tail -1 | cut -c1-160)"
done
