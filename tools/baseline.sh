#!/bin/sh
# Runs the repository's pinned test-suite (BASELINE.json cmd) against $1 (default /repo), guard OFF.
R=${1:-/repo}
cd "$R" && env -u MATHCAT4_VYXAL2_VERIF /venv/bin/python -m pytest -ra -q -p no:cacheprovider --timeout=900 --continue-on-collection-errors 2>&1 | tail -3
