#!/usr/bin/env python3
"""ref_batch.py <name> [<check ids...>]: runs tools/refcheck.sh on refactors/<name>/ and writes refactors/<name>/meta.json."""
import json
import os
import re
import subprocess
import sys

VERIF = os.path.dirname(os.path.dirname(os.path.abspath(__file__)))


def main():
    name = sys.argv[1]
    rd = os.path.join(VERIF, "refactors", name)
    p = subprocess.run([os.path.join(VERIF, "tools", "refcheck.sh"), rd] + sys.argv[2:], capture_output=True, text=True)
    out = "\n".join(l for l in p.stdout.splitlines() if "WARNING conda" not in l)
    tests = re.search(r"tests: (.*)", out)
    checks = {m.group(1): {"exit": int(m.group(2)), "violation_lines": int(m.group(3))}
              for m in re.finditer(r"check (\w+) rc=(\d+) violations=(\d+)", out)}
    notes = ""
    try:
        notes = open(os.path.join(rd, "notes.md"), encoding="utf-8").read()
    except OSError:
        pass
    meta = {
        "refactor": name,
        "origin": "written by an independent sub-agent asked for a behaviour-preserving change (saw only the property texts and a scratch worktree)",
        "what": notes.strip().splitlines()[:10],
        "patch_applies": "patch_applies=yes" in out,
        "tests": tests.group(1) if tests else None,
        "repo_head": subprocess.run(["git", "-C", "/repo", "rev-parse", "--short", "HEAD"], capture_output=True, text=True).stdout.strip(),
        "checks_run": checks,
        "alarms": sorted(k for k, v in checks.items() if v["exit"] != 0),
        "first_violations": re.findall(r"  # (.*)", out)[:4],
        "verdict": None,
    }
    old = os.path.join(rd, "meta.json")
    if os.path.exists(old):
        try:
            prev = json.load(open(old, encoding="utf-8"))
            meta["verdict"] = prev.get("verdict")
            if sys.argv[2:]:   # partial re-run: keep the other checks' results
                merged = dict(prev.get("checks_run", {}))
                merged.update(checks)
                meta["checks_run"] = merged
                meta["alarms"] = sorted(k for k, v in merged.items() if v["exit"] != 0)
        except Exception:
            pass
    with open(old, "w", encoding="utf-8") as f:
        json.dump(meta, f, ensure_ascii=False, indent=1)
    print(name, "tests=%s" % (meta["tests"] or "")[:12], "alarms=%s" % meta["alarms"], "| " + (meta["first_violations"][0][:160] if meta["first_violations"] else ""))


if __name__ == "__main__":
    main()
