#!/usr/bin/env python3
"""Regenerates /verif/MANIFEST.json from the table below + which vmc/props/cNN.py exist.
Properties without a module are listed under not_applicable (reason: not built yet)."""
import json
import os

VERIF = os.path.dirname(os.path.dirname(os.path.abspath(__file__)))
PY = "/venv/bin/python"

META = {
    "C01": dict(cat="model_checking", tech="bounded exhaustive program enumeration + statement-sequence BFS against a lock-step reference VM",
                text="Every program of the structure grammar up to the stated node bound, and every statement sequence up to the BFS depth, is executed through the real lexer/parser/transpiler/exec and compared (stack and stdout) with an independent reference interpreter of the documented structure semantics.",
                note="Trusted: the reference VM (reading decisions R1-R12 in DESIGN.md), CPython; first-order element values are shared with the implementation."),
    "C02": dict(cat="exploration", tech="bounded exhaustive enumeration of programs (every table key x position contexts; all token strings up to a length) with compile() as oracle",
                text="Every key of the element table and every modifier in every syntactic position context (nested twice), and every token string up to the length bound over the structural alphabet, must transpile and compile.",
                note="Trusted: my recogniser of 'well-formed'; CPython compile()."),
    "C03": dict(cat="exploration", tech="bounded exhaustive enumeration of literal payloads x literal kinds x syntactic contexts, parse-shape invariant",
                text="All payloads up to length 2 over the syntax-significant characters in every literal kind and 77 contexts (incl. literals as modifier operands followed by X / x): the parse shape must equal that of the neutral payload and the literal's value must be the payload.",
                note="Trusted: shape abstraction of the structure tree."),
    "C04": dict(cat="exploration", tech="bounded exhaustive enumeration of nesting chains x every dropped suffix of trailing closers, parse equality",
                text="All nesting chains up to depth 4 with every tail kind; every suffix of the trailing closers dropped; parse trees must be identical.",
                note="Trusted: repr() of the structure tree identifies it."),
    "C05": dict(cat="exploration", tech="bounded exhaustive enumeration of digit strings against a lexer DFA and fractions.Fraction",
                text="All strings up to length 8 over {0,1,9,.} against a DFA of the documented splitting; all integers up to the bound; all decimals a.b up to the digit bound; a structured family of large / algebraic-looking literals: the pushed value must equal Fraction(literal) exactly.",
                note="Trusted: fractions.Fraction, the DFA written from Lexer.md."),
    "C06": dict(cat="exploration", tech="bounded exhaustive enumeration of strings over the code page, quote/evaluate round trip",
                text="All strings up to the length bound over the 256-character code page (compression off) and over printable ASCII (compression on) survive quotify -> lexer -> transpiler -> exec unchanged.",
                note="Trusted: CPython exec of the generated literal."),
    "C07": dict(cat="exploration", tech="bounded exhaustive enumeration of rational operand pairs and expression trees against fractions.Fraction",
                text="All ordered pairs over the 133 rationals |p|<=12, q<=6 for six operators in both representations, all expression trees of depth <=2 over seven leaves run as Vyxal programs, a structured large family, and operator chains / all 3-operator tree shapes over large integer leaves: exact value and exact type.",
                note="Trusted: fractions.Fraction."),
    "C08": dict(cat="exploration", tech="bounded exhaustive enumeration of list shapes for every documented-vectorising element against a recursive map model",
                text="Every element documented as vectorising (table derived from elements.yaml at run time) on all lists up to the length bound over a mixed scalar domain, nested to depth 3, in monad / list-scalar / scalar-list / list-list shapes, eager and lazy.",
                note="Trusted: the vectorise model (recursive map, zero fill) bottoming out in the same scalar function."),
    "C09": dict(cat="exploration", tech="bounded exhaustive enumeration of (element, argument tuple) over the whole element table on a sentinel prefix",
                text="Every key of the element table on every argument tuple over the value domain, on top of a sentinel prefix whose identity and value must survive; every modifier applied to every element; the documented result counts of the data-dependent elements.",
                note="Calls that raise are out of domain. Documented whole-stack operations are exempt from the depth oracle."),
    "C10": dict(cat="model_checking", tech="explicit-state BFS over copy-op/element histories on the real interpreter + exhaustive element sweep with kept references",
                text="Every element on every argument tuple with a structural snapshot of the arguments compared afterwards; BFS over histories <value> <copy-op> <elements...> checking the untouched reference after every transition.",
                note="Trusted: structural snapshot (lazy lists forced to a bound)."),
    "C11": dict(cat="model_checking", tech="explicit-state exploration of read histories on the real interpreter in lock-step with a cursor automaton",
                text="All read histories up to the depth bound over explicit reads, implicit pops of arity 1-3 and reads inside lambda/function scopes, for input lists of length 0..4, compared with a cursor automaton after every operation; plus whole-program runs through main.execute_vyxal (offline and online) over lists of input texts.",
                note="Trusted: the cursor automaton (model of Input.md)."),
    "C12": dict(cat="model_checking", tech="explicit-state exploration of statement sequences / nesting chains with an invariant on the four bookkeeping stacks",
                text="All nesting chains up to depth 4 with break/continue leaves and all statement sequences up to the BFS depth: the depth tuple of (context_values, inputs, stacks, function_stack) is restored after every top-level statement and n yields the top-level context.",
                note="Invariant only; no reference run."),
    "C13": dict(cat="model_checking", tech="explicit-state search over observation histories on the real LazyList in lock-step with a Python list model",
                text="All sources of length 0..3 over {0,1,2} x all observation histories up to depth 3/4 over 43 parametrised observations (incl. persistent copies / iterators and slices with negative bounds) (no dedup) plus a de-duplicated BFS to depth 6/10; every observation is compared with the list model and the cache must stay a prefix of the source.",
                note="Trusted: Python list as the model. Indexing an empty list is not judged."),
    "C14": dict(cat="exploration", tech="bounded exhaustive enumeration of transformation pipelines x n on a pull-counting infinite source with a fuel budget",
                text="Every catalogued transformation and every composition up to the bound, for all n<=40: taking n items terminates within the pull budget, pulls at most the composed linear bound, and equals the same pipeline on a finite twin.",
                note="Linear bounds are fixed constants in the check source."),
    "C15": dict(cat="exploration", tech="bounded exhaustive enumeration of codec inputs, round-trip identity through the real lexer/transpiler",
                text="All integers up to the bound, all [a-z ] strings up to length 3, ASCII strings, every dictionary word and word pairs, all bases 2..300 on boundary integers: compress -> run -> original; cross-kind and mixed-codec histories in one process.",
                note="Trusted: CPython exec of generated literal code."),
    "C16": dict(cat="exploration", tech="bounded exhaustive enumeration of small integer lists against executable laws",
                text="All integer lists up to length 4/5 over -2..3 (eager and lazy) against ~40 laws written with itertools/builtins.",
                note="Trusted: the law right-hand sides."),
    "C17": dict(cat="exploration", tech="bounded exhaustive enumeration of integers and pairs against naive number-theory definitions",
                text="All n up to the bound for the monads, all pairs up to the bound for the dyads, a structured large family, sympy-Integer arguments, and strong pseudoprimes / Mersenne primes for primality, against trial-division style definitions.",
                note="Trusted: naive reference definitions, math.comb/factorial."),
    "C18": dict(cat="exploration", tech="bounded exhaustive enumeration of adversarial payloads x injection positions, AST vocabulary + erased-AST equality",
                text="All payloads up to length 2/3 over a 27-character adversarial alphabet (incl. one character outside the code page) in every position that accepts program-chosen text, and all raw strings up to length 3/4: the generated Python must parse, use only the fixed vocabulary and differ from the benign output only in constants and prefixed identifiers.",
                note="Trusted: ast.parse; vocabulary collected from a benign corpus."),
    "C19": dict(cat="exploration", tech="bounded exhaustive enumeration of tainted programs/inputs through execute_vyxal(online) observed by audit hooks and fd-level capture",
                text="All programs up to the token bound over the printing/eval alphabet x tainted inputs x flags in online mode: no tainted exec, no host stdout, errors in the record; programs that print and then fail keep their output and report the error.",
                note="Trusted: sys.addaudithook exec events, fd-level capture."),
    "C20": dict(cat="exploration", tech="exhaustive enumeration of finite tables (256 bytes, 65536 byte pairs, every table key)",
                text="The code page, all two-byte strings, every key of the element/modifier/structure tables, the table source AST (duplicate keys) and the yaml arities are enumerated completely.",
                note="Line-based yaml reader (PyYAML is not installed)."),
}


def main():
    checks = []
    na = []
    for pid in sorted(META):
        m = META[pid]
        if os.path.exists(os.path.join(VERIF, "vmc", "props", pid.lower() + ".py")):
            checks.append({
                "property_id": pid,
                "quick_cmd": "%s -m vmc.run %s --tier quick" % (PY, pid),
                "thorough_cmd": "%s -m vmc.run %s --tier thorough" % (PY, pid),
                "evidence_file": "/verif/evidence/%s.json" % pid,
                "replay_cmd_template": "%s -m vmc.run %s --replay {path}" % (PY, pid),
                "engine": "vmc",
                "level_claimed": {"category": m["cat"], "text": m["text"], "design_ref": "DESIGN.md section 3, " + pid},
                "level_note": m["note"],
                "technique": m["tech"],
            })
        else:
            na.append({"property_id": pid, "reason": "check not built yet (planned: %s)" % m["tech"]})
    man = {
        "version": 1,
        "setup_cmd": "cd /verif && %s -m vmc.selftest" % PY,
        "hooks": {
            "guard": "MATHCAT4_VYXAL2_VERIF",
            "enable": "no source hooks are needed: checks interpose from outside (exec namespace, module attributes, audit hooks); the guard is unused",
            "baseline_off_cmd": "cd /repo && /venv/bin/python -m pytest -ra -q -p no:cacheprovider --timeout=900 --continue-on-collection-errors",
            "source_commits": [],
            "add_only": True,
        },
        "engines": [{
            "name": "vmc",
            "path": "/verif/vmc",
            "serves_properties": [c["property_id"] for c in checks],
            "kind_free_text": "hand-written explicit-state / bounded-exhaustive explorer for Python (BFS over histories replayed on fresh real objects, lock-step reference models, 16 forked workers)",
        }],
        "checks": checks,
        "not_applicable": na,
        "notes": "All checks take VERIF_REPO (default /repo), VERIF_SEED (permutes shard order and picks samples only) and VERIF_TIER. known_findings.json is read-only at run time.",
    }
    with open(os.path.join(VERIF, "MANIFEST.json"), "w", encoding="utf-8") as f:
        json.dump(man, f, indent=1, ensure_ascii=False)
        f.write("\n")
    print("MANIFEST.json: %d checks, %d not_applicable" % (len(checks), len(na)))


if __name__ == "__main__":
    main()
