#!/usr/bin/env python3
"""Rewrites section 9 of DESIGN.md (behaviour-preserving changes and the checks' silence) from refactors/*/meta.json."""
import glob
import json
import os
import re

VERIF = os.path.dirname(os.path.dirname(os.path.abspath(__file__)))
NOTES = {
    "R_transpile-A": "written against the HEAD before the escape fix (a468a1b) and conflicts with it textually, so it was run on that base: "
                     "C02 / C18 report exactly the base's own defect (890 and 8 violations with and without the patch, all incomplete "
                     "\\x \\u \\U \\N escapes) - the refactor reproduces the old behaviour, including its defect; no alarm is due to the refactor",
}


def main():
    rows = []
    for f in sorted(glob.glob(os.path.join(VERIF, "refactors", "*", "meta.json"))):
        m = json.load(open(f, encoding="utf-8"))
        name = m["refactor"]
        what = re.sub(r"\s+", " ", " ".join(m.get("what", [])[:4])).replace("|", "\\|")[:260]
        n = len(m.get("checks_run", {}))
        alarms = ", ".join(m.get("alarms", [])) or "none"
        rows.append("| %s | %s | %s | %d | %s | %s |" % (name, m.get("repo_head"), (m.get("tests") or "")[:10], n, alarms, NOTES.get(name, "").replace("|", "\\|")))
        rows[-1] = rows[-1].replace("| %s | %s |" % (name, m.get("repo_head")), "| %s | %s | %s |" % (name, what, m.get("repo_head")), 1)
    table = ["| change | what it does | base | tests | checks run | checks that exit non-zero | note |", "|---|---|---|---|---|---|---|"] + rows
    text = open(os.path.join(VERIF, "DESIGN.md"), encoding="utf-8").read()
    marker = "## 9. Behaviour-preserving changes"
    head = text[: text.index(marker)] if marker in text else text.rstrip("\n") + "\n\n"
    body = (marker + " and the checks' silence\n\n"
            "The other half of the claim - never an alarm on code where the property holds - was probed the same way as detection:\n"
            "independent sub-agents (given the property texts and a scratch worktree, nothing from /verif) wrote realistic\n"
            "*behaviour-preserving* changes, one area each, and convinced themselves of equivalence with their own differential runs.\n"
            "Round 1 (R_*, after wave 5): six agents x four changes (LazyList, transpiler templates incl. the layout of generated code,\n"
            "lexer/parser, helpers, element bodies and modifier templates, main/context/encoding); `tools/refcheck.sh` applies each on a\n"
            "scratch worktree, runs the 392 tests and then ALL twenty quick checks against that copy. Round 2 (S_*, after wave 7, i.e.\n"
            "against the strengthened checks): six agents x three changes (number functions, list functions, string / printing code,\n"
            "lazy producers and consumers, the remaining templates and parser branches, the online / output path); for these the six to\n"
            "nine checks anchored in the touched area were run (column `checks run`). Every check has to exit 0. Patches and results are\n"
            "kept under `refactors/<id>/`.\n\n"
            + "\n".join(table) + "\n")
    open(os.path.join(VERIF, "DESIGN.md"), "w", encoding="utf-8").write(head + body)
    print(len(rows), "refactors;", sum(1 for r in rows if "| none |" in r), "silent")


if __name__ == "__main__":
    main()
