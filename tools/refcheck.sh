#!/bin/bash
# refcheck.sh <dir containing patch.diff> [PROP ...]   (default: all registered checks)
# A behaviour-preserving change: applies it on a scratch worktree of /repo's HEAD, runs the 392 tests, then runs the quick checks
# against that copy. Every check must exit 0 (a non-zero exit is either a real behaviour change or a false alarm to investigate).
SD=$(realpath "$1"); shift
W=/var/tmp/vmc-ref-$$
git -C /repo worktree add -q --detach $W ${SEED_BASE:-HEAD} || exit 9
cleanup() { git -C /repo worktree remove --force $W 2>/dev/null; rm -rf /var/tmp/vmc-rev-$$; }
trap cleanup EXIT
cd $W
if ! git apply --whitespace=nowarn $SD/patch.diff; then echo "patch_applies=no"; exit 8; fi
echo "patch_applies=yes"
echo "tests: $(timeout 900 /venv/bin/python -m pytest -q -p no:cacheprovider --timeout=900 </dev/null 2>&1 | tail -1)"
mkdir -p /var/tmp/vmc-rev-$$
PROPS="$@"
[ -z "$PROPS" ] && PROPS=$(python3 -c "import json;print(' '.join(c['property_id'] for c in json.load(open('/verif/MANIFEST.json'))['checks']))")
for P in $PROPS; do
  out=$(cd /verif && VERIF_REPO=$W VERIF_EVIDENCE_DIR=/var/tmp/vmc-rev-$$ VERIF_REPLAY_DIR=/var/tmp/vmc-rev-$$/replays timeout 3000 /venv/bin/python -m vmc.run $P --tier ${TIER:-quick} 2>&1)
  rc=$?
  echo "check $P rc=$rc violations=$(echo "$out" | grep -c '^VIOLATION')"
  echo "$out" | grep -A1 '^VIOLATION' | head -6 | cut -c1-400
done
