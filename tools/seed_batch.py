#!/usr/bin/env python3
"""seed_batch.py <seed-name> [<check ids...>]   e.g.  seed_batch.py C13-A        (default check = the seed's own property)
Confirms a seeded change with tools/seedcheck.sh (scratch worktree of /repo's HEAD) and writes seeded/<name>/meta.json."""
import json
import os
import re
import subprocess
import sys

VERIF = os.path.dirname(os.path.dirname(os.path.abspath(__file__)))


def main():
    name = sys.argv[1]
    prop = name.split("-")[0]
    sd = os.path.join(VERIF, "seeded", name)
    if prop[:2] in ("F_", "G_", "H_", "I_"):
        # file-focused seed: the property it breaks is named on the first line of its notes ("property: C07")
        try:
            first = open(os.path.join(sd, "notes.md"), encoding="utf-8").read()
            m = re.search(r"property:\s*\**\s*(C\d\d)", first)
            prop = m.group(1) if m else "C01"
        except OSError:
            prop = "C01"
    checks = sys.argv[2:] or [prop]
    env = dict(os.environ)
    p = subprocess.run([os.path.join(VERIF, "tools", "seedcheck.sh"), sd] + checks, capture_output=True, text=True, env=env)
    out = "\n".join(l for l in p.stdout.splitlines() if "WARNING conda" not in l)
    res = {
        "demo_before": re.search(r"demo_before=(\d+)", out),
        "demo_after": re.search(r"demo_after=(\d+)", out),
        "patch_applies": re.search(r"patch_applies=(\w+)", out),
        "tests": re.search(r"tests: (.*)", out),
    }
    res = {k: (m.group(1) if m else None) for k, m in res.items()}
    detected = {}
    for m in re.finditer(r"check (\w+) rc=(\d+) violations=(\d+)", out):
        detected[m.group(1)] = {"exit": int(m.group(2)), "violation_lines": int(m.group(3))}
    first = re.findall(r"  # (.*)", out)[:3]
    notes = ""
    try:
        notes = open(os.path.join(sd, "notes.md"), encoding="utf-8").read()
    except OSError:
        pass
    confirmed = (res["demo_before"] == "0" and res["demo_after"] == "1" and res["patch_applies"] == "yes"
                 and (res["tests"] or "").startswith("392 passed"))
    meta = {
        "seed": name,
        "property": prop,
        "origin": "written by an independent sub-agent that saw only the property text and a scratch worktree (nothing from /verif)",
        "needs_to_manifest": notes.strip().splitlines()[:12],
        "confirmed": confirmed,
        "confirmation": {"command": "tools/seedcheck.sh seeded/%s %s (TIER=%s)" % (name, " ".join(checks), os.environ.get("TIER", "quick")),
                         "repo_head": subprocess.run(["git", "-C", "/repo", "rev-parse", "--short", os.environ.get("SEED_BASE", "HEAD")], capture_output=True, text=True).stdout.strip(),
                         **res},
        "checks_run": detected,
        "detected_by": sorted(k for k, v in detected.items() if v["exit"] == 1),
        "first_violations": first,
    }
    with open(os.path.join(sd, "meta.json"), "w", encoding="utf-8") as f:
        json.dump(meta, f, ensure_ascii=False, indent=1)
    print(name, "confirmed=%s" % confirmed, "detected_by=%s" % meta["detected_by"], "| " + (first[0][:140] if first else ""))


if __name__ == "__main__":
    main()
